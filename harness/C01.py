"""C01 - every frame written to a device is self-consistent and correctly signed."""
import time

import z3

from harness import common as H, apiops as A
from harness.symops import O
from shadow import engine as E, aio, concretize as C
from shadow.values import SymSeq, b_and, b_not, bterm, Blob
from spec import frames as SF

PID = "C01"


def run_case(case, eng, res):
    known = {k["id"]: k for k in H.load_known(PID)}

    rows = None
    if case["op"] == "create_schedule":
        from harness.timeprops import rows_of
        rows = rows_of(case["zone"])

    def body(path):
        return A.run_op(path, case, zone_rows=rows)

    npaths = 0
    for path, run, exc in eng.explore(body):
        if exc is not None:
            raise exc
        npaths += 1
        path.twin("C01 end of path")
        m0 = None
        for i, f in enumerate(run.frames):
            conds = SF.envelope_ok(O, f)
            for name, c in conds.items():
                lbl = "%s" % name
                res["checks"][lbl] = res["checks"].get(lbl, 0) + 1
                bad = b_not(c)
                if bad is False:
                    path.engine.stats.checks += 1
                    path.engine.stats.checks_discharged += 1
                    continue
                excl = []
                for kid, k in known.items():
                    reg = known_region(kid, run, f, i)
                    if reg is not None:
                        excl.append((kid, k, reg))
                q = b_and(bad, *[b_not(r) for _, _, r in excl])
                m = None if q is False else path.refute(bterm(q))
                if m is not None:
                    res["violations"].append({
                        "what": "C01 frame %d of %s fails %s" % (i, run.op, name), "case": case,
                        "replay": A.replay_spec(run, m, "C01", zone=_zone(path, m, rows)),
                    })
                for kid, k, reg in excl:
                    qq = b_and(bad, reg)
                    if qq is not False and path.refute(bterm(qq)) is not None:
                        res["known_hits"].append({"id": kid, "what": k["what"]})
        m = path.witness()
        res["witnesses"].append({
            "replay": A.replay_spec(run, m, "C01", zone=_zone(path, m, rows)),
            "gapfold": case["op"] == "create_schedule",
            "expected": {"frames": [C.ev_seq(m, f).hex() for f in run.frames],
                         "blobframes": [i for i, f in enumerate(run.frames) if f.has_blob()],
                         "outcome": run.outcome if run.outcome == "exc" else "ok"},
        })
        if len(res["samples"]) < 2:
            res["samples"].append({"case": case, "outcome": run.outcome, "n_frames": len(run.frames),
                                   "witness_frames": [C.ev_seq(m, f).hex()[:120] for f in run.frames]})
    if npaths == 0:
        raise E.HarnessError("no feasible path")


def _zone(path, m, rows):
    if rows is None:
        return None
    te = path.notes["timeenv"]
    return rows[C.ev_int(m, te.zi)]["zone"]


def known_region(kid, run, frame, idx):
    """known findings are identified by a predicate over the counterexample"""
    return None


def main(tier):
    t0 = time.time()
    from harness import timeprops
    timeprops.TIER[0] = tier
    from shadow import floats as FL
    FL.lemma_floor_div(60, 32)
    FL.lemma_amps(65535)
    cases = []
    for op in A.T1_OPS + A.T2_OPS:
        if op == "create_schedule":
            cases += [{"op": op, "zone": z} for z in (["UTC", "Asia/Jerusalem"] if tier == "quick" else ["UTC", "Asia/Jerusalem", "Australia/Lord_Howe", "America/St_Johns"])]
            continue
        cases += A.op_cases(op, tier)
    # login replies of a fixed length without tail (lets the code search / index the whole reply)
    for op, extra in (("get_state", {}), ("control_device", {"command": "ON"}), ("stop", {})):
        cases.append(dict({"op": op, "lr_fixed": 16}, **extra))
    # IR command texts of concrete boundary lengths with every character symbolic (chunking / threshold behaviour)
    for n in ([3, 12, 165, 940] if tier == "quick" else [1, 3, 11, 12, 164, 165, 166, 252, 933, 934, 1000]):
        cases.append({"op": "control_breeze_device", "separated": False, "update": False, "req": "state_only", "ir_len": n, "simple_state": True})
    results = H.run_cases("harness.C01", "run_case", cases, timeout_ms=60000 if tier == "quick" else 600000)
    nwit = validate_witnesses(results)
    H.finish(
        PID, tier, "model_checking", results, t0,
        rule="one symbolic run per (operation, case); device id/key, session, clock, replies and arguments symbolic; "
             "a path is one control-flow outcome of the operation",
        bounds={"names": "0..%d UTF-8 bytes" % (40 if tier == "quick" else 96), "login reply": "12 free bytes + 0..1012 more",
                "minutes": "|m| <= 2^40", "timedelta": "|s| < 2^31 whole seconds"},
        assumptions=["stream contract of DESIGN 3.3", "stubs of binascii/struct validated per path against the real code"],
        technique="symbolic execution of the real source (SHADOW) + z3 QF_BV",
        witness_checked=nwit, exhaustive_splits=False,
        extra={"states": sum(r["stats"]["feasible_paths"] for r in results),
               "transitions": sum(r["stats"]["branch_decisions"] for r in results)},
    )


def validate_witnesses(results):
    wit = [(r, w) for r in results for w in r["witnesses"]]
    obs = H.replay_batch([w["replay"] for _, w in wit])
    good = 0
    for (r, w), o in zip(wit, obs):
        exp = w["expected"]
        # frames holding a symbolic-length blob were signed with an uninterpreted CRC fold: compare all but the signature
        bf = set(exp.get("blobframes", []))
        gotf = o.get("frames") or []
        same = len(gotf) == len(exp["frames"]) and all((g[:-8] == e[:-8]) if i in bf else (g == e)
                                                       for i, (g, e) in enumerate(zip(gotf, exp["frames"])))
        ok = same and (("exception" in o) == (exp["outcome"] == "exc"))
        if not ok and w.get("gapfold") and len(gotf) == len(exp["frames"]) == 2 and gotf[0] == exp["frames"][0]:
            # a wall-clock time inside a DST fold has two instants: the model may pick the other one than glibc.
            # Tolerated when the frames differ only in the start/end fields (bytes 87..94) and the signature.
            g, e = gotf[1], exp["frames"][1]
            if len(g) == len(e) and g[:174] == e[:174] and g[190:-8] == e[190:-8]:
                ok = True
        if ok:
            good += 1
        else:
            diffs = []
            for i, (g, e) in enumerate(zip(gotf, exp["frames"])):
                if g != e:
                    d = [k for k in range(0, min(len(g), len(e)), 2) if g[k:k + 2] != e[k:k + 2]]
                    diffs.append((i, len(g) // 2, len(e) // 2, [k // 2 for k in d][:12]))
            r["inconclusive"].append("witness mismatch (symbolic vs real): op=%s args=%s clock=%s zone=%s frames real/model=%d/%d "
                                     "differing (frame, len real, len model, byte offsets)=%s real outcome=%s" % (
                                         w["replay"].get("op"), str(w["replay"].get("args"))[:200], w["replay"].get("clock"),
                                         w["replay"].get("zone"), len(gotf), len(exp["frames"]), diffs,
                                         str({k: o.get(k) for k in ("exception", "msg", "replay_error")})[:300]))
    return good
