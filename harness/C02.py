"""C02 - each operation's frame encodes exactly that operation and the caller's arguments."""
import time

from harness import common as H, apiops as A, timeargs as TA
from harness.symops import O
from shadow import engine as E, concretize as C, timeenv
from shadow.values import SymSeq, b_and, b_not, b_or, bterm
from spec import opspec as SO, frames as SF

PID = "C02"
ZONE_ROWS = None


def zone_rows():
    global ZONE_ROWS
    if ZONE_ROWS is None:
        ZONE_ROWS = timeenv.build_zone_table()
    return ZONE_ROWS


def run_case(case, eng, res):
    op = case["op"]
    rows = None
    if op == "create_schedule":
        allrows = zone_rows()
        rows = [r for r in allrows if r["zone"] == case["zone"]]
        if "row" in case:
            rows = [rows[case["row"]]]

    def body(path):
        if case.get("twice"):
            first = A.run_op(path, case, zone_rows=rows, tag="first")
            path.notes["timeenv"].now()
            run = A.run_op(path, case, zone_rows=rows, api=first.api, dev=first.dev)
            run.extra["first"] = first
            return run
        return A.run_op(path, case, zone_rows=rows)

    npaths = 0
    for path, run, exc in eng.explore(body):
        if exc is not None:
            raise exc
        npaths += 1
        path.twin("C02 end of path")
        a = run.a
        frames = run.frames
        zone = None
        checks = []  # (label, bad-condition)
        if len(frames) >= 2:
            cmd = frames[1]
            if cmd.has_blob():
                raise E.Unsupported("command frame with blob in C02")
            if len(cmd.items) < 28:
                checks.append(("frame_shape", True))
            else:
                a["ts"] = A.le_int(cmd, 24, 4)
                acc = SO.accepted(O, op, a)
                checks.append(("no_frame_for_rejected_arguments", SO.must_reject(O, op, a)))
                extra_ok = True
                if op == "create_schedule":
                    te = path.notes["timeenv"]
                    if len(cmd.items) >= 95:
                        a["start_t"] = A.le_int(cmd, 87, 4)
                        a["end_t"] = A.le_int(cmd, 91, 4)
                        reads = run.clock_reads[1:] or run.clock_reads
                        sh, sm = run.extra["start"]
                        eh, em = run.extra["end"]
                        extra_ok = TA.local_target_ok(te, a["end_t"], reads, eh, em)
                        if "free_start" not in case:
                            extra_ok = b_and(TA.local_target_ok(te, a["start_t"], reads, sh, sm), extra_ok)
                    else:
                        a["start_t"] = a["end_t"] = 0
                        extra_ok = False
                # body byte-for-byte, signature over the frame's own body (logically the same as
                # equality with the signed reference frame, but keeps the CRC terms syntactically shared)
                exp_body = SF.body_of(O, SO.command_kind(op), SO.fields(O, op, a))
                same = b_and(SymSeq("bytes", cmd.items[:-4]).eq(exp_body), O.sig_ok(cmd))
                checks.append(("frame_equals_reference_layout", b_and(acc, b_not(b_and(same, extra_ok)))))
        else:
            acc = SO.accepted(O, op, dict(a, ts=0))
            # no command frame: only legal for rejected arguments, and then the call must raise
            checks.append(("accepted_arguments_produce_a_frame", acc))
            if run.outcome != "exc":
                checks.append(("rejected_arguments_raise", SO.must_reject(O, op, dict(a, ts=0))))
        if len(frames) > 2:
            checks.append(("frame_count", True))
        for lbl, bad in checks:
            res["checks"][lbl] = res["checks"].get(lbl, 0) + 1
            if bad is False:
                eng.stats.checks += 1
                eng.stats.checks_discharged += 1
                continue
            m = path.refute(bterm(bad))
            if m is not None:
                rp = A.replay_spec(run, m, "C02", zone=_zone(path, m, rows))
                if case.get("twice"):
                    f0 = A.replay_spec(run.extra["first"], m, None, zone=_zone(path, m, rows))
                    rp["before_ops"] = [{k: f0[k] for k in ("op", "args", "replies", "clock")}]
                res["violations"].append({"what": "C02 %s: %s" % (op, lbl), "case": case, "replay": rp})
        m = path.witness()
        if case.get("twice"):
            continue
        res["witnesses"].append({
            "replay": A.replay_spec(run, m, None, zone=_zone(path, m, rows)),
            "expected": {"frames": [C.ev_seq(m, f).hex() for f in run.frames],
                         "outcome": run.outcome if run.outcome == "exc" else "ok"},
            "gapfold": op == "create_schedule",
        })
        if len(res["samples"]) < 2:
            res["samples"].append({"case": case, "outcome": run.outcome, "n_frames": len(run.frames),
                                   "args": run.json_args(m) if run.json_args else [],
                                   "witness_command_frame": C.ev_seq(m, run.frames[1]).hex() if len(run.frames) > 1 else None})
    if npaths == 0:
        raise E.HarnessError("no feasible path")


def _zone(path, m, rows):
    if rows is None:
        return None
    te = path.notes["timeenv"]
    return rows[C.ev_int(m, te.zi)]["zone"]


def main(tier):
    t0 = time.time()
    from shadow import floats as FL
    FL.lemma_floor_div(60, 32)
    FL.lemma_amps(65535)
    cases = []
    for op in A.T1_OPS + ["stop", "set_position", "get_shutter_state", "get_breeze_state"]:
        if op == "create_schedule":
            zs = timeenv.ZONES if tier == "thorough" else ["UTC", "Asia/Jerusalem", "Australia/Lord_Howe", "America/St_Johns", "Pacific/Kiritimati"]
            cases += [{"op": op, "zone": z} for z in zs]
            cases += [{"op": op, "zone": "UTC", "free_start": n} for n in range(0, 6 if tier == "quick" else 9)]
            cases += [{"op": op, "zone": "UTC", "days_seq": n} for n in (1, 2, 3)]
            cases += [{"op": op, "zone": z, "twice": True} for z in ("UTC", "Asia/Jerusalem")]
        else:
            cases += A.op_cases(op, tier)
    results = H.run_cases("harness.C02", "run_case", cases, timeout_ms=60000 if tier == "quick" else 600000)
    from harness.C01 import validate_witnesses
    nwit = validate_witnesses(results)
    H.finish(
        PID, tier, "model_checking", results, t0,
        rule="one symbolic run per (operation, case): the command frame is compared byte-for-byte with the reference layout "
             "instantiated with the abstract arguments; rejected arguments must raise before any command frame",
        bounds={"names": "0..%d UTF-8 bytes" % (40 if tier == "quick" else 96), "minutes": "|m| <= 2^40",
                "timedelta": "|s| < 2^31 whole seconds", "clock strings": "HH:MM with 4 symbolic digits (valid times)",
                "zones": "rows of the tz table 2024-2037 (+-2 days around each transition, constant stretches)"},
        assumptions=["stream contract of DESIGN 3.3", "zone contract of DESIGN 3.5 (glibc == zoneinfo table)",
                     "float lemma L1 (floor(fl(s/60)) = s div 60)"],
        technique="symbolic execution of the real source (SHADOW) + z3 QF_BV; cvc5 for the FP lemma",
        witness_checked=nwit, exhaustive_splits=False,
        extra={"states": sum(r["stats"]["feasible_paths"] for r in results),
               "transitions": sum(r["stats"]["branch_decisions"] for r in results)},
    )
