"""C03 - every operation logs in first and binds its commands to that login's session."""
import time

import z3

from harness import common as H, apiops as A, monitor
from harness.symops import O
from shadow import loader, engine as E, concretize as C, timeenv, aio, floats as FL
from shadow.values import SymSeq, SymInt, b_and, b_not, b_or, bterm, i_eq
from spec import frames as SF

PID = "C03"
NFRAMES = {"control_breeze_device": (2, 4)}


def op_checks(run, label=""):
    """per-operation obligations: returns list of (label, bad, detail)"""
    out = []
    frames = run.frames
    if not frames:
        return [("login_frame_first", True, "no frame written")]
    lo, hi = NFRAMES.get(run.op, (2, 2))
    if run.outcome == "ok" and not (lo <= len(frames) <= hi):
        out.append(("frame_count", True, "%d frames" % len(frames)))
    if len(frames) > hi:
        out.append(("frame_count", True, "%d frames" % len(frames)))
    lg = frames[0]
    kind = "login1" if run.api_type == 1 else "login2"
    if lg.has_blob() or len(lg.items) != SF.FRAME_LEN[kind]:
        out.append(("login_frame_first", True, "first frame is not a login frame"))
        return out
    ts = A.le_int(lg, 24, 4)
    body = SF.body_of(O, kind, dict(ts=ts, key=run.dev["key"], dev_id=run.dev["dev"]))
    out.append(("login_frame_first", b_not(b_and(SymSeq("bytes", lg.items[:-4]).eq(body), O.sig_ok(lg))), "login layout"))
    # a current timestamp: the rounded value of a clock read made during this very operation
    if not run.clock_reads:
        out.append(("timestamp_is_current", True, "no clock read during the operation"))
    else:
        out.append(("timestamp_is_current", b_not(b_or(*[b_or(i_eq(ts, t), i_eq(ts, t + 1)) for t in run.clock_reads])), ""))
    for k, f in enumerate(frames[1:], 1):
        if len([u for u in f.items]) < 43:
            out.append(("command_frame_shape", True, "frame %d too short" % k))
            continue
        out.append(("session_of_this_login", b_not(SymSeq("bytes", f.items[8:12]).eq(run.session)), "frame %d" % k))
        out.append(("same_timestamp", b_not(SymSeq("bytes", f.items[24:28]).eq(SymSeq("bytes", lg.items[24:28]))), "frame %d" % k))
        out.append(("own_device_id", b_not(SymSeq("bytes", f.items[40:43]).eq(run.dev["dev"])), "frame %d" % k))
    return out


def _case_for(op, simple=False):
    c = {"op": op, "simple": simple}
    if op == "control_device":
        c["command"] = "ON"
    if op == "set_device_name":
        c["B"] = 5
    if op == "control_breeze_device":
        c.update(separated=True, update=False, req="all", simple_state=True)
    return c


def run_case(case, eng, res):
    kind = case["kind"]
    rows = timeenv.build_zone_table(["UTC"]) if any(o == "create_schedule" for o in case["ops"]) else None

    def body(path):
        timeenv.setup(path, rows)
        runs = []
        if kind == "seq":
            api = dev = None
            snaps = []
            for i, op in enumerate(case["ops"]):
                before = monitor.snapshot([api] if api is not None else [])
                run = A.run_op(path, _case_for(op, case.get("simple", True)), zone_rows=rows, api=api, dev=dev, tag="o%d" % i)
                api, dev = run.api, run.dev
                after = monitor.snapshot([api])
                if i > 0:
                    snaps.append(monitor.diff(before, after))
                runs.append(run)
            return runs, snaps
        # two instances, interleaved at every await point
        w = aio.world()
        prepared = [A.prepare_op(path, _case_for(op, True), zone_rows=rows, tag="i%d" % i) for i, op in enumerate(case["ops"])]
        te = path.notes["timeenv"]
        w.yield_points = True
        before = monitor.snapshot([r.api for r in prepared])
        coros = [r.coro() for r in prepared]

        def on_switch(k):
            te.owner = prepared[k].owner

        results = aio.run_interleaved(coros, path, on_switch=on_switch)
        te.owner = None
        after = monitor.snapshot([r.api for r in prepared])
        for r, (tag, val) in zip(prepared, results):
            A.finish_op(r, "ok" if tag == "ok" else "exc", val)
        return prepared, [monitor.diff(before, after)]

    n = 0
    for path, out, exc in eng.explore(body):
        if exc is not None:
            raise exc
        n += 1
        path.twin("C03")
        runs, diffs = out
        checks = []
        for i, run in enumerate(runs):
            for lbl, bad, detail in op_checks(run):
                checks.append((lbl, bad, "op %d (%s) %s" % (i, run.op, detail), run))
        if kind == "inter":
            a, b = runs
            # nothing of the other instance appears in one's frames
            for x, y in ((a, b), (b, a)):
                for k, f in enumerate(x.frames[1:], 1):
                    if len(f.items) >= 43:
                        checks.append(("no_cross_instance_session", b_and(b_not(x.session.eq(y.session)),
                                                                         SymSeq("bytes", f.items[8:12]).eq(y.session)), "frame %d" % k, x))
                        checks.append(("no_cross_instance_device_id", b_and(b_not(x.dev["dev"].eq(y.dev["dev"])),
                                                                           SymSeq("bytes", f.items[40:43]).eq(y.dev["dev"])), "frame %d" % k, x))
        for d in diffs:
            if d:
                # state that outlives an operation breaks the inductive argument (DESIGN 6, C03) but is not by itself a
                # violation (a cache of a pure function is harmless): it is reported, and the claim stays bounded to the
                # explored sequences and interleavings, which is where a stale session / timestamp / identity shows up
                res["notes"].append("state written by an operation and still there afterwards: %s" % (d[:4],))
        for lbl, bad, detail, run in checks:
            res["checks"][lbl] = res["checks"].get(lbl, 0) + 1
            if bad is False:
                eng.stats.checks += 1
                eng.stats.checks_discharged += 1
                continue
            m = path.refute(bterm(bad) if not isinstance(bad, bool) else z3.BoolVal(bad))
            if m is not None:
                res["violations"].append({"what": "C03 %s: %s" % (lbl, detail), "case": case, "replay": seq_replay(runs, m, kind, path)})
        mw = path.witness()
        res["witnesses"].append({"replay": seq_replay(runs, mw, kind, path, oracle=None),
                                 "expected": {"frames": [[C.ev_seq(mw, f).hex() for f in r.frames] for r in runs],
                                              "blob": [[i for i, f in enumerate(r.frames) if f.has_blob()] for r in runs]}})
        if len(res["samples"]) < 1:
            res["samples"].append({"case": case, "schedule": [l for l in path.labels if l[0] == "sched"][:12],
                                   "frames_per_op": [len(r.frames) for r in runs]})
    if n == 0:
        raise E.HarnessError("no feasible path")


def seq_replay(runs, m, kind, path, oracle="C03"):
    ops = []
    for r in runs:
        s = A.replay_spec(r, m, None)
        ops.append({k: s[k] for k in ("api", "dev_id", "key", "op", "args", "replies", "clock", "remote") if k in s})
    sched = [v for (l, v) in path.labels if l == "sched"]
    return {"kind": "api_seq", "mode": kind, "ops": ops, "schedule": sched, "oracle": oracle}


def main(tier):
    t0 = time.time()
    FL.lemma_floor_div(60, 32)
    FL.lemma_amps(65535)
    t1 = [o for o in A.T1_OPS]
    t2 = [o for o in A.T2_OPS if o != "control_breeze_device"]
    cases = []
    for group in (t1, t2):
        for a in group:
            for b in group:
                cases.append({"kind": "seq", "ops": [a, b]})
    # thermostat control: three to four frames per operation, all bound to the same login
    for a, b in (("control_breeze_device", "control_breeze_device"), ("control_breeze_device", "get_breeze_state"),
                 ("stop", "control_breeze_device")):
        cases.append({"kind": "seq", "ops": [a, b]})
    if tier == "thorough":
        rep = ["get_state", "control_device", "set_device_name"]
        for a in rep:
            for b in rep:
                for c in rep:
                    cases.append({"kind": "seq", "ops": [a, b, c]})
    inter = [("control_breeze_device", "set_position"), ("get_state", "control_device"), ("control_device", "control_device"), ("get_state", "get_shutter_state"),
             ("set_position", "stop"), ("get_breeze_state", "get_state"), ("delete_schedule", "set_auto_shutdown")]
    if tier == "thorough":
        allops = t1 + t2
        inter = [(a, b) for i, a in enumerate(allops) for b in allops[i:]]
    for a, b in inter:
        cases.append({"kind": "inter", "ops": [a, b]})
    results = H.run_cases("harness.C03", "run_case", cases, timeout_ms=120000 if tier == "quick" else 600000)
    def cmp(exp, o):
        got = o.get("frames")
        if not got or len(got) != len(exp["frames"]):
            return False
        for g, e, bf in zip(got, exp["frames"], exp.get("blob", [[]] * len(got))):
            if len(g) != len(e):
                return False
            for i, (x, y) in enumerate(zip(g, e)):
                if (x[:-8] != y[:-8]) if i in bf else (x != y):
                    return False
        return True

    nw = H.validate_call_witnesses(results, cmp=cmp)
    H.finish(PID, tier, "model_checking", results, t0,
             rule="ordered pairs (thorough: also triples) of operations on one connection with fresh symbolic sessions and clock reads, and two "
                  "API instances whose coroutines are interleaved at every await point (all schedules); a write-set monitor "
                  "fingerprints module globals, class attributes, defaults and instance attributes around each operation",
             bounds={"sequence length": 2 if tier == "quick" else 3, "instances": 2, "interleavings": "every schedule of the await points"},
             assumptions=["stream contract of DESIGN 3.3 (a peer sees exactly the bytes written, in order)",
                          "inductive step: an operation's frames depend only on its own login reply, its own clock read and the "
                          "constructor arguments because the monitor shows nothing else is written"],
             technique="SHADOW symbolic execution of the real Python source + z3 QF_BV; explicit scheduler nondeterminism",
             witness_checked=nw, exhaustive_splits=False,
             extra={"states": sum(r["stats"]["feasible_paths"] for r in results),
                    "transitions": sum(r["stats"]["branch_decisions"] for r in results)})
