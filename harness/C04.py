"""C04 - the signature is the protocol's double CRC-16 for every byte string."""
import time

import z3

from harness import common as H
from harness.symops import O
from shadow import loader, engine as E, stubs
from shadow.values import SymSeq, U8, b_and, b_not, b_or, bterm, unit_is_hex_cond, general_unit_nibble
from shadow import concretize as C
from shadow import timeenv, aio
from spec import frames as SF

PID = "C04"


def _sym_text(path, n_units, hex_only, lower=False):
    if lower:
        # the lower-case spelling of n_units/2 free bytes (what hexlify produces): no per-character case split, long strings stay cheap
        from harness import apiops as A

        raw = A.fresh_bytes(path, "b", n_units // 2)
        path.notes["raw_bytes"] = raw
        return stubs.s_hexlify(raw).m_decode()
    units = []
    for i in range(n_units):
        v = path.fresh_bv("c%d" % i, 8)
        path.constrain(z3.ULT(v, 128))
        u = U8(v, True)
        if hex_only:
            path.constrain(bterm(unit_is_hex_cond(u)))
        units.append(u)
    return SymSeq("str", units)


def run_case(case, eng, res):
    # long inputs: the CRC byte step is an uninterpreted function (equal folds over equal bytes are equal by congruence; the
    # bit-precise model - quadratic in z3 once its XOR chains are flattened - decides the lengths up to 160 bytes)
    old = stubs.CRC_MODE
    stubs.CRC_MODE = case.get("crc", "bits")
    try:
        _run_case(case, eng, res)
    finally:
        stubs.CRC_MODE = old


def _run_case(case, eng, res):
    tools = loader.load("device.tools")
    n_units, hex_only = case["units"], case["hex_only"]
    saw = {"ok": 0, "exc": 0}

    def body(path):
        if case.get("second_call"):
            # an earlier call with another (possibly equal-valued, differently spelled) text must not influence this one
            s0 = _sym_text(path, n_units, hex_only)
            try:
                tools.sign_packet_with_crc_key(s0)
            except Exception:  # noqa: BLE001
                pass
            path.notes["first_text"] = s0
        s = _sym_text(path, n_units, hex_only, case.get("lower", False))
        try:
            r = tools.sign_packet_with_crc_key(s)
            return ("ok", s, r)
        except Exception as e:  # noqa: BLE001
            return ("exc", s, e)

    for path, out, exc in eng.explore(body):
        if exc is not None:
            raise exc
        tag, s, r = out
        saw[tag] += 1
        path.twin("C04 end of path")
        lower = bool(case.get("lower"))
        valid = True if lower else b_and(n_units % 2 == 0, *[unit_is_hex_cond(u) for u in s.items])
        te = path.notes.get("timeenv")
        w = path.notes.get("world")
        if (te and te.reads) or (w and w.events):
            res["violations"].append(_viol(path, path.witness(), s, case, "signing read the clock or did I/O (not deterministic)"))
        if tag == "ok":
            checks = {}
            checks["valid_input"] = valid
            if isinstance(r, str):
                r = SymSeq.of(r)
            if not isinstance(r, SymSeq) or r.kind != "str" or r.has_blob():
                res["violations"].append(_viol(path, path.witness(), s, case, "result is not text"))
                continue
            ok_len = len(r.items) == n_units + 8
            if ok_len:
                checks["prefix_unaltered"] = SymSeq("str", r.items[:n_units]).eq(s)
                # reference signature over the bytes the hex text denotes
                bs = list(path.notes["raw_bytes"].items) if lower else \
                    [U8(z3.Concat(general_unit_nibble(s.items[2 * i]), general_unit_nibble(s.items[2 * i + 1])))
                     for i in range(n_units // 2)]
                sig = SF.signature(O, SymSeq("bytes", bs))
                exp = stubs.s_hexlify(sig).m_decode()
                checks["signature"] = SymSeq("str", r.items[n_units:]).eq(exp)
            else:
                checks["length"] = False
            for lbl, c in checks.items():
                res["checks"][lbl] = res["checks"].get(lbl, 0) + 1
                m = path.refute(bterm(b_not(c)))
                if m is not None:
                    res["violations"].append(_viol(path, m, s, case, "C04 %s violated" % lbl))
        else:
            res["checks"]["raise_only_if_invalid"] = res["checks"].get("raise_only_if_invalid", 0) + 1
            m = path.refute(bterm(valid))
            if m is not None:
                res["violations"].append(_viol(path, m, s, case, "valid hex input raises %s" % type(r).__name__))
        # witness for validation against the real function
        m = path.witness()
        text = C.ev_seq(m, s)
        res["witnesses"].append({
            "replay": dict({"kind": "call", "func": "device.tools:sign_packet_with_crc_key", "args": [text], "oracle": "C04"},
                           **({"before": [C.ev_seq(m, path.notes["first_text"])]} if "first_text" in path.notes else {})),
            "expected": _expected(case, m, r, text) if tag == "ok" else {"exception": type(r).__name__},
        })
        if len(res["samples"]) < 2:
            res["samples"].append({"case": case, "path": tag, "witness_input": text,
                                   "result": C.conc(m, r) if tag == "ok" else type(r).__name__})
    if hex_only and n_units % 2 == 0 and saw["ok"] == 0:
        raise E.HarnessError("no returning path for valid hex input")


def _expected(case, m, r, text):
    """what the real function must return for the witness input: the symbolic result under the model - except that an
    uninterpreted CRC has no value of its own, there the reference signature of the witness input stands in"""
    if case.get("crc") != "uf":
        return C.conc(m, r)
    from spec.ops_concrete import O as OC

    return text + bytes(SF.signature(OC, bytes.fromhex(text))).hex()


def _viol(path, m, s, case, what):
    text = C.ev_seq(m, s)
    rp = {"kind": "call", "func": "device.tools:sign_packet_with_crc_key", "args": [text], "oracle": "C04"}
    if "first_text" in path.notes:
        rp["before"] = [C.ev_seq(m, path.notes["first_text"])]
    return {"what": what, "case": case, "replay": rp}


def crc_model_lemmas(eng):
    """tie the shared CRC model to the textbook definition: one-step equivalence for every
    (crc, byte) - by induction every length - and to binascii.crc_hqx on concrete data"""
    import binascii
    import random

    c = z3.BitVec("c", 16)
    b = z3.BitVec("b", 8)
    r, _ = eng.solve([stubs.crc_step_bits(c, b) != stubs.crc_step_shift(c, b)])
    if r != "unsat":
        raise E.HarnessError("CRC linear model differs from shift/xor model")
    # the affine shortcut for runs of concrete bytes equals the byte-by-byte fold for every start state
    rnd0 = random.Random(H.seed() + 1)
    for k in (1, 2, 3):
        data = bytes(rnd0.randrange(256) for _ in range(k))
        stepwise = c
        for byte in data:
            stepwise = stubs.crc_step_bits(stepwise, z3.BitVecVal(byte, 8))
        r2, _ = eng.solve([stubs.crc_run_concrete(c, data) != stepwise])
        if r2 != "unsat":
            raise E.HarnessError("CRC affine shortcut differs from the stepwise fold")
    for k in (1, 4, 10, 36, 77, 120):
        data = bytes(rnd0.randrange(256) for _ in range(k))
        lin = stubs.crc_run_concrete(c, data)
        for _ in range(6):
            s0 = rnd0.randrange(65536)
            v = z3.simplify(z3.substitute(lin, (c, z3.BitVecVal(s0, 16)))).as_long()
            if v != binascii.crc_hqx(data, s0):
                raise E.HarnessError("CRC affine shortcut disagrees with binascii.crc_hqx")
    rnd = random.Random(H.seed())
    from spec.ops_concrete import crc16
    for k in range(80):
        data = bytes(rnd.randrange(256) for _ in range(rnd.randrange(0, 48)))
        init = rnd.choice([0x1021, 0, 0xFFFF, rnd.randrange(65536)])
        t = z3.BitVecVal(init, 16)
        for byte in data:
            t = z3.simplify(stubs.crc_step_bits(t, z3.BitVecVal(byte, 8)))
        v = t.as_long()
        if not (v == binascii.crc_hqx(data, init) == crc16(data, init)):
            raise E.HarnessError("CRC model disagrees with binascii.crc_hqx")
    return 81


def main(tier):
    t0 = time.time()
    eng = E.Engine()
    nlem = crc_model_lemmas(eng)
    maxn = 24 if tier == "quick" else 160
    cases = [{"units": 2 * n, "hex_only": True} for n in range(0, maxn + 1)]
    cases += [{"units": k, "hex_only": False} for k in range(1, 7)]
    cases += [{"units": 2 * n, "hex_only": True, "second_call": True} for n in (1, 2, 4)]
    # long byte strings (the statement reaches 4 KiB): lower-case spelling of n free bytes, CRC step uninterpreted
    if tier == "quick":
        long_lens = sorted({(1 << k) + d for k in range(5, 13) for d in (-1, 0, 1)})
    else:
        long_lens = list(range(161, 4226))
    cases += [{"units": 2 * n, "hex_only": True, "lower": True, "crc": "uf"} for n in long_lens]
    results = H.run_cases("harness.C04", "run_case", cases, timeout_ms=60000 if tier == "quick" else 600000)
    # witness validation on the unmodified function
    wit = [w for r in results for w in r["witnesses"]]
    obs = H.replay_batch([w["replay"] for w in wit])
    bad = 0
    for w, o in zip(wit, obs):
        exp = w["expected"]
        if isinstance(exp, dict) and "exception" in exp:
            same = "exception" in o
        else:
            same = o.get("result") == exp
        if not same:
            bad += 1
            results[0]["inconclusive"].append("witness mismatch: symbolic %r vs real %r for %r" % (exp, o, w["replay"]["args"]))
    H.finish(
        PID, tier, "model_checking", results, t0,
        rule="one symbolic run of sign_packet_with_crc_key per text length; every unit a free ASCII character "
             "(constrained to [0-9a-fA-F] for the valid-input cases); a path is one (returns | raises) outcome",
        bounds={"valid_hex_bytes": "0..%d in every upper/lower-case spelling, bit-precise CRC" % maxn,
                "long byte strings": ("lengths 2^k-1, 2^k, 2^k+1 for k = 5..12 (31..4097 bytes)" if tier == "quick" else
                                      "every length 161..4225 bytes") +
                                     ", lower-case spelling, CRC byte step uninterpreted (congruence)",
                "free_text_units": "1..6", "characters": "ASCII (< 128)",
                "outside": "byte strings longer than 4225 bytes; upper-case spellings beyond %d bytes; non-ASCII text" % maxn},
        assumptions=[
            "binascii.hexlify/unhexlify/crc_hqx and struct.pack behave as their stubs (validated on %d concrete CRC inputs "
            "and on one witness per path against the real function)" % nlem,
            "the CRC model (GF(2)-linear byte step) is equivalent to the shift/xor definition for every (crc, byte): discharged by z3 each run",
        ],
        technique="symbolic execution of the real source (SHADOW) + z3 QF_BV, bit-precise CRC-16",
        witness_checked=len(wit) - bad,
        exhaustive_splits=False,
        extra={"states": sum(r["stats"]["feasible_paths"] for r in results),
               "transitions": sum(r["stats"]["branch_decisions"] for r in results)},
    )
