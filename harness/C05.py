from harness.bcast import main_c05 as main  # noqa: F401
