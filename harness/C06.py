from harness.bcast import main_c06 as main  # noqa: F401
