"""C07 - the bridge delivers each valid broadcast once, in order, whatever else arrives."""
import time

import z3

from harness import common as H, apiops as A
from harness.symops import O
from harness.bcast import expected_fields, field_ok
from shadow import loader, engine as E, concretize as C, timeenv, aio, floats as FL
from shadow.values import SymSeq, SymBool, b_and, b_not, b_or, bterm, i_eq, sym_eq
from spec import broadcast as SB

PID = "C07"
CLASSES = ["valid1", "validb", "validr", "foreign", "short", "cut3", "long", "unknown", "undecodable"]
FAMILY = {"valid1": "type1", "validb": "breeze", "validr": "runner"}
MODEL = {"valid1": 0x030B, "validb": 0x0E01, "validr": 0x0C02}


def _bytes_ascii_name(path, tag, n):
    """n free bytes, except the name field 42..73 which is the concrete text "Switcher <tag>" NUL padded
    (C05 decides the name decoding over every UTF-8 name; here it only has to be carried along)"""
    d = A.fresh_bytes(path, tag, n)
    name = ("Switcher " + tag).encode()[:32].ljust(32, b"\x00")
    items = list(d.items)
    for k in range(42, min(74, n)):
        items[k] = name[k - 42]
    return SymSeq("bytes", items)


def make_datagram(path, cls, tag):
    if cls in FAMILY:
        fam = FAMILY[cls]
        d = _bytes_ascii_name(path, tag, SB.FAMILY_LEN[fam])
        r = SB.decode(O, d, fam)
        extra = [i_eq(r["model"], MODEL[cls])]
        # C05 decides the decoding over the whole field domain; here the enumerants are pinned and the name is ASCII
        # so that a sequence of datagrams stays at a few paths
        if fam == "breeze":
            extra += [i_eq(r["mode"], 4), i_eq(r["fan"], 1)]
        if fam == "runner":
            extra += [i_eq(r["direction"], 0x0100)]
        path.assume(bterm(b_and(SB.wellformed(O, d, fam, r), *extra)))
        return d, r
    if cls == "foreign":
        d = A.fresh_bytes(path, tag, 165)
        path.assume(bterm(b_not(b_and(sym_eq(O.u(d, 0), 0xFE), sym_eq(O.u(d, 1), 0xF0)))))
        return d, None
    if cls == "short":
        return A.fresh_bytes(path, tag, 164), None
    if cls == "cut3":
        # a genuine type-1 broadcast that lost its last three bytes (162 = one step below 165 in the 159/165/168 family)
        d = _bytes_ascii_name(path, tag, 162)
        r = SB.decode(O, d, "type1")
        path.assume(bterm(b_and(sym_eq(O.u(d, 0), 0xFE), sym_eq(O.u(d, 1), 0xF0), i_eq(r["model"], 0x030B), O.u(d, 133) <= 1,
                                r["remaining_s"] < 86400)))
        return d, None
    if cls == "long":
        return A.fresh_bytes(path, tag, 166), None
    if cls == "unknown":
        d = A.fresh_bytes(path, tag, 165)
        r = SB.decode(O, d, "type1")
        path.assume(bterm(b_and(sym_eq(O.u(d, 0), 0xFE), sym_eq(O.u(d, 1), 0xF0), *[b_not(i_eq(r["model"], c)) for c in SB.MODELS])))
        return d, None
    if cls == "undecodable":
        # genuine length, known model, ON, but a remaining time no device sends (>= 24 h): the parser raises
        d = _bytes_ascii_name(path, tag, 165)
        r = SB.decode(O, d, "type1")
        path.assume(bterm(b_and(sym_eq(O.u(d, 0), 0xFE), sym_eq(O.u(d, 1), 0xF0), i_eq(r["model"], 0x030B), i_eq(O.u(d, 133), 1),
                                r["remaining_s"] >= 86400, O.name_field_ok(r["name_field"]))))
        return d, None
    raise KeyError(cls)


def run_case(case, eng, res):
    bridge_mod = loader.load("bridge")
    dev = loader.load("device")
    ports = list(case["ports"])
    seq = case["seq"]  # list of (class, port index)

    def body(path):
        timeenv.setup(path)
        w = aio.world()
        log = []
        raise_bits = []

        def on_device(d):
            k = len(log)
            log.append(d)
            b = SymBool(path.fresh_bool("cb_raises_%d" % k))
            raise_bits.append(b)
            if k < case.get("raise_first", 0):
                path.assume(bterm(b))  # a run of failing callbacks
            if bool(b):
                raise RuntimeError("user callback failed")

        br = bridge_mod.SwitcherBridge(on_device, ports)
        aio.run(br.start())
        sent = []
        for i, ent in enumerate(seq):
            cls, pi = ent[0], ent[1]
            d, r = make_datagram(path, cls, "g%d_" % i)
            # [class, port, k]: the same datagram arrives k times in a row (a run of failures, a repeated broadcast)
            for _rep in range(ent[2] if len(ent) > 2 else 1):
                n0 = len(log)
                w.deliver(ports[pi], d)
                w.cycle()  # the loop cycles between two arrivals: a delivery handed to call_soon has been made by then
                sent.append(dict(cls=cls, port=pi, d=d, r=r, delivered=log[n0:]))
        aio.run(br.stop())
        return sent, log, raise_bits, list(w.loop_errors)

    n = 0
    for path, out, exc in eng.explore(body):
        if exc is not None:
            raise exc
        n += 1
        path.twin("C07")
        sent, log, raise_bits, errs = out
        checks = []
        for i, s in enumerate(sent):
            got = s["delivered"]
            if s["cls"] in FAMILY:
                if len(got) != 1:
                    checks.append(("exactly_once_per_valid_broadcast", True))
                    continue
                exp = expected_fields(dev, s["r"], FAMILY[s["cls"]])
                bad = b_or(*[b_not(field_ok(getattr(got[0], f, None), ev)) for f, ev in exp.items()])
                checks.append(("delivered_device_equals_reference_decode", bad))
            else:
                if got:
                    checks.append(("nothing_delivered_for_bad_datagram", True))
        nvalid = sum(1 for s in sent if s["cls"] in FAMILY)
        if len(log) != nvalid:
            checks.append(("callback_count", True))
        H.discharge(path, eng, res, checks, lambda lbl, m: {"what": "C07 %s" % lbl, "case": case,
                                                             "replay": c07_replay(m, case, sent, raise_bits, "C07")})
        mw = path.witness()
        res["witnesses"].append({"replay": c07_replay(mw, case, sent, raise_bits, None),
                                 "expected": {"devices": [C.conc(mw, g) for g in log]}})
        if len(res["samples"]) < 1:
            res["samples"].append({"case": case, "callbacks": len(log), "loop_errors": [type(e).__name__ for e in errs],
                                   "raise_bits": [C.ev_bool(mw, b) for b in raise_bits]})
    if n == 0:
        raise E.HarnessError("no feasible path")


def c07_replay(m, case, sent, raise_bits, oracle):
    return {"kind": "bridge_dgrams", "nports": len(case["ports"]),
            "dgrams": [{"port": s["port"], "data": C.ev_seq(m, s["d"]).hex(), "family": FAMILY.get(s["cls"])} for s in sent],
            "raise": [C.ev_bool(m, b) for b in raise_bits], "oracle": oracle}


def main(tier):
    t0 = time.time()
    FL.lemma_amps(65535)
    cases = []
    for a in CLASSES:
        for b in CLASSES:
            if tier == "quick" and a not in FAMILY and b not in FAMILY:
                continue
            cases.append({"ports": [20002], "seq": [[a, 0], [b, 0]]})
    two = ["valid1", "foreign", "undecodable"] if tier == "quick" else ["valid1", "validb", "foreign", "undecodable", "unknown"]
    for a in two:
        for b in two:
            for pa in (0, 1):
                for pb in (0, 1):
                    if pa == pb == 0:
                        continue
                    cases.append({"ports": [20002, 20003], "seq": [[a, pa], [b, pb]]})
    if tier == "thorough":
        three = ["valid1", "validr", "foreign", "undecodable", "short"]
        for a in three:
            for b in three:
                for c in three:
                    cases.append({"ports": [20002, 10002, 20003, 10003], "seq": [[a, 0], [b, 3], [c, 0]]})
    # runs: the same bad datagram k times in a row (or k valid ones whose callback raises), then a valid broadcast on that port
    runs = (2, 3, 5, 8) if tier == "quick" else (2, 3, 4, 5, 8, 16, 33)
    for k in runs:
        for bad in (["undecodable"] if tier == "quick" else ["undecodable", "foreign", "short", "cut3", "unknown"]):
            cases.append({"ports": [20002], "seq": [[bad, 0, k], ["valid1", 0]]})
        if k <= 8:
            cases.append({"ports": [20002], "seq": [["valid1", 0, k], ["validb", 0]], "raise_first": k})
    cases.append({"ports": [20002, 20003], "seq": [["undecodable", 0, 3], ["valid1", 1], ["valid1", 0]]})
    results = H.run_cases("harness.C07", "run_case", cases, timeout_ms=120000 if tier == "quick" else 600000)
    nw = H.validate_call_witnesses(results, cmp=lambda exp, o: o.get("devices") == exp["devices"])
    H.finish(PID, tier, "model_checking", results, t0,
             rule="sequences of datagram classes {valid type-1 / Breeze / Runner, foreign magic, one byte short, three bytes short, one byte long, unknown model, "
                  "undecodable field}; every byte of every datagram symbolic under its class predicate; one symbolic bit per callback "
                  "invocation decides whether the user's callback raises",
             bounds={"sequence length": 2 if tier == "quick" else 3, "runs": "the same bad datagram (or failing callback) %s times in a row, then a valid broadcast" % (runs,), "ports": "1..2" if tier == "quick" else "1..4",
                     "valid datagrams": "all bytes symbolic except a concrete name; model, Breeze mode/fan and Runner direction pinned (C05 covers the full field domain)"},
             assumptions=["asyncio delivery contract (DESIGN 3.3): datagrams of a socket are handed to datagram_received in arrival order, "
                          "exceptions escaping it are logged by the loop and delivery continues",
                          "the write-set monitor of C03/C05 paths: the parser keeps no state between datagrams"],
             technique="SHADOW symbolic execution of the real Python source under a stub event loop + z3 QF_BV",
             witness_checked=nw, exhaustive_splits=False,
             extra={"states": sum(r["stats"]["feasible_paths"] for r in results),
                    "transitions": sum(r["stats"]["branch_decisions"] for r in results)})
