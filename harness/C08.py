from harness.replies import main_c08 as main  # noqa: F401
