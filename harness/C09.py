from harness.replies import main_c09 as main  # noqa: F401
