"""C10 - listed schedules decode exactly; a created schedule reads back unchanged."""
import time

import z3

from harness import common as H, apiops as A, timeargs as TA
from harness.timeprops import rows_of, zone_of, clock_list
from shadow import loader, engine as E, concretize as C, timeenv, stubs, floats as FL, aio
from shadow.values import (SymSeq, SymInt, SymBool, SymSet, Opaque, U8, b_and, b_not, b_or, b_iff, b_implies, bterm, i_eq,
                           i_ite, sym_eq)

PID = "C10"
DAYN = TA.DAY_NAMES


class Summary:
    """uninterpreted result of a function verified elsewhere (C12/C13/C14): identified by its arguments"""

    def __init__(self, name, args):
        self.name, self.args = name, args


def hhmm_of(te, t):
    """expected 'HH:MM' of instant t in the run's zone (reference decoder)"""
    day, h, m, s = te.decomp(t + te.off(t), "spec")
    return SymSeq("str", timeenv._two_digits(h) + [58] + timeenv._two_digits(m)), h, m


def record(path, tag, te, mask=None):
    """16-byte schedule record with free id/flags/trailing bytes and instants inside the zone window"""
    rid = A.fresh_bytes(path, tag + "id", 1)
    en = A.fresh_bytes(path, tag + "en", 1)
    if mask is None:
        mv = path.fresh_bv(tag + "mask", 8)
        # {0} u {2,4,..,254}
        path.constrain(z3.Extract(0, 0, mv) == 0)
        mk = SymSeq("bytes", [U8(mv)])
        mi = SymInt.from_unsigned(mv, 0, 254)
    else:
        mk = SymSeq("bytes", [mask])
        mi = mask
    st = A.fresh_bytes(path, tag + "st", 1)
    ts = A.fresh_int(path, tag + "start", 0, (1 << 32) - 1)
    tend = A.fresh_int(path, tag + "end", 0, (1 << 32) - 1)
    path.assume(bterm(b_and(te.in_window(ts), te.in_window(tend))))
    tail = A.fresh_bytes(path, tag + "tl", 4)
    from harness.symops import O

    rec = rid + en + mk + st + O.le32(ts) + O.le32(tend) + tail
    # the reference decoder reads the instants from the record's own bytes (LE32 at 4 and 8)
    ts_b = stubs.int_from_units(list(rec.items[4:8]), "little")
    te_b = stubs.int_from_units(list(rec.items[8:12]), "little")
    return rec, dict(id=rid, mask=mi, start=ts_b, end=te_b)


def run_case(case, eng, res):
    kind = case["kind"]
    from harness import timeprops
    timeprops.TIER[0] = case.get("tier", "quick")
    rows = rows_of(case["zone"])
    if "row" in case:
        rows = [rows[case["row"] % len(rows)]]
    sched_tools = loader.load("schedule.tools")
    sched = loader.load("schedule")
    # duration and next-run text are decided for every input by C14 and C13: here they are argument-recording summaries,
    # so that C10 is about which record fields reach them; the day decoder stays inlined where the mask is concrete
    summarize = True
    if summarize:
        def s_days(v):
            ok = b_and(v > 1, v < 255)
            if not bool(ok):
                raise ValueError("weekdays bit sum should be between 2 and 254")
            return Summary("days", [v])

        mod = sched_tools.__name__
        if kind == "parseK":
            loader.override(mod, "bit_summary_to_days", s_days)
        loader.override(mod, "pretty_next_run", lambda start, days=None, *a, **k: Summary("next_run", [start, days]))
        loader.override(mod, "calc_duration", lambda a, b, *x, **k: Summary("duration", [a, b]))
    try:
        _run(case, eng, res, kind, rows, sched)
    finally:
        loader.clear_overrides()


def _run(case, eng, res, kind, rows, sched):
    info = {}

    def plan_factory(path):
        te = path.notes["timeenv"]

        def plan(path_, case_, run, tag):
            hdr = A.fresh_bytes(path, "hdr", 45)
            trl = A.fresh_bytes(path, "trl", 4)
            recs = []
            if kind == "parse1":
                r, f = record(path, "r0", te, mask=case["mask"])
                recs.append((r, f))
            elif kind == "parseK":
                for k in range(case["k"]):
                    recs.append(record(path, "r%d" % k, te))
            body = hdr
            for r, _f in recs:
                body = body + r
            run.replies.append(body + trl)
            info["recs"] = recs
        return plan

    def body(path):
        timeenv.setup(path, rows)
        if kind == "roundtrip":
            return roundtrip_body(path, case, rows, sched, info)
        return A.run_op(path, {"op": "get_schedules"}, zone_rows=rows, reply_plan=plan_factory(path))

    n = 0
    for path, run, exc in eng.explore(body):
        if exc is not None:
            raise exc
        n += 1
        path.twin("C10")
        te = path.notes["timeenv"]
        checks = []
        if kind == "roundtrip":
            run, rt = run
            if run.outcome != "ok":
                checks.append(("created_schedule_lists_back", True))
            else:
                ss = run.result.schedules
                mem = [(g, e) for g, e in ss.members] if isinstance(ss, SymSet) else [(True, e) for e in ss]
                if len(mem) != 1 or mem[0][0] is not True:
                    checks.append(("one_schedule", True))
                else:
                    s0 = mem[0][1]
                    checks.append(("roundtrip_start", b_not(sym_eq(s0.start_time, rt["start"]))))
                    checks.append(("roundtrip_end", b_not(sym_eq(s0.end_time, rt["end"]))))
                    dconds = []
                    for g, name in zip(rt["guards"], DAYN):
                        d = sched.Days[name]
                        has = _has_day(s0.days, d)
                        dconds.append(b_iff(has, g))
                    checks.append(("roundtrip_days", b_not(b_and(*dconds))))
        else:
            recs = info["recs"]
            if run.outcome != "ok":
                checks.append(("whole_records_parse", True))
            else:
                ss = run.result.schedules
                if isinstance(ss, (set, frozenset)):
                    members = [(True, x) for x in ss]
                elif isinstance(ss, SymSet):
                    members = list(ss.members)
                else:
                    raise E.Unsupported("schedules is %r" % type(ss).__name__)
                if not recs:
                    checks.append(("empty_reply_no_schedules", False if not members else True))
                # every record's id is present exactly once, carrying the fields of a record with that id
                exp = [expected_record(te, f, sched) for _r, f in recs]
                for i, ei in enumerate(exp):
                    alts = []
                    for g, s in members:
                        alts.append(b_and(g, sym_eq(s.schedule_id, ei["id"])))
                    checks.append(("one_schedule_per_slot_id", b_not(b_or(*alts))))
                for g, s in members:
                    alts = [member_matches(s, ej, kind, sched) for ej in exp]
                    checks.append(("schedule_fields_equal_a_record", b_and(g, b_not(b_or(*alts)))))
                # distinct members have distinct ids
                for a in range(len(members)):
                    for b in range(a + 1, len(members)):
                        ga, sa = members[a]
                        gb, sb = members[b]
                        checks.append(("no_duplicate_ids", b_and(ga, gb, sym_eq(sa.schedule_id, sb.schedule_id))))
        H.discharge(path, eng, res, checks, lambda lbl, m: {
            "what": "C10 %s (%s)" % (lbl, kind), "case": case, "replay": c10_replay(path, m, run, rows, kind, info, "C10")})
        mw = path.witness()
        if kind != "parseK":
            res["witnesses"].append({"replay": c10_replay(path, mw, run, rows, kind, info, None),
                                     "expected": _expected(mw, run)})
        if len(res["samples"]) < 1:
            res["samples"].append({"case": case, "zone": zone_of(path, mw, rows), "outcome": run.outcome,
                                   "witness_reply": C.ev_seq(mw, run.replies[-1]).hex()[:200]})
    if n == 0:
        raise E.HarnessError("no feasible path")


def _has_day(days, d):
    if isinstance(days, SymSet):
        return days.contains(d)
    if isinstance(days, Summary):
        raise E.Unsupported("day summary in membership test")
    return d in days


def expected_record(te, f, sched):
    start, sh, sm = hhmm_of(te, f["start"])
    end, eh, em = hhmm_of(te, f["end"])
    rid = f["id"].items[0]
    idv = rid if isinstance(rid, int) else SymInt.from_unsigned(rid.t)
    d = (eh * 60 + em) - (sh * 60 + sm)
    dur = i_ite(d < 0, d + 1440, d) * 60
    return dict(id=Opaque("DecStr", [idv]), mask=f["mask"], start=start, end=end, dur=dur)


def member_matches(s, e, kind, sched):
    conds = [sym_eq(s.schedule_id, e["id"]), sym_eq(s.start_time, e["start"]), sym_eq(s.end_time, e["end"])]
    mask = e["mask"]
    rec = b_not(i_eq(mask, 0))
    conds.append(b_iff(s.recurring, rec) if not isinstance(s.recurring, bool) else (b_iff(s.recurring, rec)))
    if kind == "parseK":
        # wiring of the summarised functions: which arguments they were applied to
        if isinstance(s.days, Summary):
            conds.append(b_and(rec, i_eq(s.days.args[0], mask)))
        else:
            conds.append(b_and(b_not(rec), len(s.days.members) == 0 if isinstance(s.days, SymSet) else len(s.days) == 0))
        conds.append(b_and(sym_eq(s.duration.args[0], e["start"]), sym_eq(s.duration.args[1], e["end"])))
    else:
        for k, name in enumerate(DAYN):
            has = _has_day(s.days, sched.Days[name])
            bit = b_not(i_eq(mask & (1 << (k + 1)), 0)) if not isinstance(mask, int) else bool(mask & (1 << (k + 1)))
            conds.append(b_iff(has, bit))
        dur = s.duration
        if isinstance(dur, Summary):
            conds.append(b_and(sym_eq(dur.args[0], e["start"]), sym_eq(dur.args[1], e["end"])))
        elif isinstance(dur, Opaque):
            conds.append(i_eq(dur.args[0], e["dur"]))
        else:
            conds.append(False)
    return b_and(*conds)


def roundtrip_body(path, case, rows, sched, info):
    """create_schedule, then a device lists the emitted record back under an arbitrary slot id"""
    c = {"op": "create_schedule", "zone": case["zone"]}
    run1 = A.run_op(path, c, zone_rows=rows, tag="c")
    if run1.outcome != "ok" or len(run1.frames) < 2 or len(run1.frames[1].items) < 95:
        raise E.PathAbort()
    guards = run1.extra["guards"]
    for k, bit in enumerate(case.get("fixed", [])):
        path.assume(bterm(guards[k] if bit else b_not(guards[k])))
    payload = SymSeq("bytes", run1.frames[1].items[84:95])
    holder = {}

    def plan(path_, case_, run, tag):
        hdr = A.fresh_bytes(path, "hdr", 45)
        rid = A.fresh_bytes(path, "slot", 1)
        tail = A.fresh_bytes(path, "tl", 8)
        run.replies.append(hdr + rid + payload + tail)

    run2 = A.run_op(path, {"op": "get_schedules"}, zone_rows=rows, reply_plan=plan, api=run1.api, dev=run1.dev, tag="l")
    sh, sm = run1.extra["start"]
    eh, em = run1.extra["end"]
    args = run1.json_args
    rt = dict(guards=guards, start=SymSeq("str", timeenv._two_digits(sh) + [58] + timeenv._two_digits(sm)),
              end=SymSeq("str", timeenv._two_digits(eh) + [58] + timeenv._two_digits(em)), run1=run1)
    info["rt"] = rt
    return run2, rt


def c10_replay(path, m, run, rows, kind, info, oracle):
    if kind == "roundtrip":
        run1 = info["rt"]["run1"]
        s1 = A.replay_spec(run1, m, None)
        s2 = A.replay_spec(run, m, None)
        return {"kind": "c10_roundtrip", "create": s1, "list": s2, "zone": zone_of(path, m, rows), "oracle": oracle,
                "clock": clock_list(path, m)}
    s = A.replay_spec(run, m, oracle, zone=zone_of(path, m, rows))
    s["clock"] = clock_list(path, m)
    return s


def _expected(m, run):
    if run.outcome != "ok":
        return {"exception": type(run.result).__name__}
    out = []
    ss = run.result.schedules
    for g, s in (ss.members if isinstance(ss, SymSet) else [(True, x) for x in ss]):
        if C.ev_bool(m, g):
            d = {"schedule_id": C.conc(m, s.schedule_id), "recurring": C.conc(m, s.recurring), "days": C.conc(m, s.days),
                 "start_time": C.conc(m, s.start_time), "end_time": C.conc(m, s.end_time)}
            if not isinstance(s.duration, Summary):
                d["duration"] = C.conc(m, s.duration)
            out.append(d)
    return {"schedules": sorted(out, key=lambda d: d["schedule_id"])}


def _cmp(exp, o):
    if "exception" in exp:
        return "exception" in o
    got = o.get("schedules")
    if got is None:
        return False
    keys = tuple(exp["schedules"][0].keys()) if exp["schedules"] else ("schedule_id",)
    norm = sorted(({k: s.get(k) for k in keys} for s in got), key=lambda d: d["schedule_id"])
    return norm == exp["schedules"]


def main(tier):
    t0 = time.time()
    from harness import timeprops
    timeprops.TIER[0] = tier
    zones_q = ["Asia/Jerusalem", "Australia/Lord_Howe", "UTC"]
    zones = timeenv.ZONES if tier == "thorough" else zones_q
    cases = []
    masks = [0] + list(range(2, 255, 2))
    if tier == "quick":
        masks = [0, 2, 4, 0x80, 0xFE, 0x2A, 0x54, 0x7E, 0x06, 0xC0]
    for z in zones:
        for mk in masks:
            cases.append({"kind": "parse1", "zone": z, "mask": mk})
    for z in zones:
        for k in range(0, 5):
            cases.append({"kind": "parseK", "zone": z, "k": k})
    if tier == "thorough":
        # more records only for two zones: the cost grows with 2^k paths and k^2 lemma instances
        for z in ("Asia/Jerusalem", "UTC"):
            for k in (5, 6):
                cases.append({"kind": "parseK", "zone": z, "k": k})
    for z in zones:
        for f in range(8):
            cases.append({"kind": "roundtrip", "zone": z, "fixed": [(f >> 2) & 1, (f >> 1) & 1, f & 1]})
    for c_ in cases:
        c_["tier"] = tier
    results = H.run_cases("harness.C10", "run_case", cases, timeout_ms=120000 if tier == "quick" else 600000)
    nw = H.validate_call_witnesses(results, cmp=_cmp)
    H.finish(PID, tier, "model_checking", results, t0,
             rule="(1) one record with every byte free except a concrete day mask, everything inlined; (2) k records with the day "
                  "decoder, duration and next-run functions replaced by argument-recording summaries (they are decided by C12/C14/C13); "
                  "(3) create_schedule's emitted record listed back by a device under an arbitrary slot id",
             bounds={"records": "0..4" if tier == "quick" else "0..4 in every zone, 5 and 6 in two zones", "zones": zones, "zone table": "transitions 2024-%d" % (2026 if tier == "quick" else 2037), "masks (inlined)": len(masks),
                     "instants": "inside the zone row's window", "outside": "replies whose record area is not a multiple of 16 bytes"},
             assumptions=["zone contract (DESIGN 3.5)", "summaries in run (2) rely on C12, C13, C14 holding",
                          "mixed-radix uniqueness lemma (LIA)"],
             technique="SHADOW symbolic execution of the real Python source + z3 QF_BV over a symbolic zone row",
             witness_checked=nw, exhaustive_splits=False,
             extra={"states": sum(r["stats"]["feasible_paths"] for r in results),
                    "transitions": sum(r["stats"]["branch_decisions"] for r in results)})
