from harness.timeprops import main_c11 as main  # noqa: F401
