"""C12 - weekday sets and their one-byte mask are a bijection."""
import time

import z3

from harness import common as H, apiops as A, timeargs as TA
from shadow.dispatch import SYM
from shadow import loader, engine as E, concretize as C, timeenv
from shadow.values import (SymSeq, SymInt, SymBool, SymChoice, SymSet, Hx, b_and, b_not, b_or, bterm, i_eq, i_ite,
                           b_iff, sym_eq, nibble_of)
from shadow.dispatch import _IntShadow

PID = "C12"
DAYN = TA.DAY_NAMES


def _day_choice(path, Days, tag):
    idx = A.fresh_int(path, tag, 0, 6)
    return SymChoice.mk(idx, [Days[n] for n in DAYN]), idx


def _hex2_value(r):
    """value of a two-lowercase-hex-digit text, and the condition that it is one"""
    if isinstance(r, str):
        r = SymSeq.of(r)
    if not isinstance(r, SymSeq) or r.kind != "str" or r.has_blob() or len(r.items) != 2:
        return None, False
    conds, nibs = [], []
    for u in r.items:
        if isinstance(u, Hx):
            conds.append(not u.upper)
            nibs.append(SymInt.from_unsigned(u.nib, 0, 15))
        elif isinstance(u, int):
            ok = chr(u) in "0123456789abcdef"
            conds.append(ok)
            nibs.append(int(chr(u), 16) if ok else 0)
        else:
            return None, False
    return nibs[0] * 16 + nibs[1], b_and(*conds)


def run_case(case, eng, res):
    sched = loader.load("schedule")
    tools = loader.load("schedule.tools")
    Days = sched.Days
    form = case["form"]

    def body(path):
        timeenv.setup(path)
        info = {}
        if form == "single":
            d, idx = _day_choice(path, Days, "day")
            arg = d
            info["mask"] = i_ite(True, 0, 0)
            info["mask"] = sum((i_ite(i_eq(idx, k), 1 << (k + 1), 0) for k in range(7)), 0)
            info["dup"] = False
            info["empty"] = False
            info["json"] = lambda m: {"enum": "Days." + DAYN[C.ev_int(m, idx)]}
        elif form == "set":
            s, mask, guards = TA.sym_dayset(path, sched)
            arg = s
            info["mask"] = mask
            info["dup"] = False
            info["empty"] = b_not(b_or(*guards))
            info["json"] = lambda m: {"set": [{"enum": "Days." + n} for n, g in zip(DAYN, guards) if C.ev_bool(m, g)]}
        elif form in ("list", "tuple"):
            n = case["n"]
            if case.get("after"):
                # an earlier, legal call over symbolic days (a memo of its result must not leak into this call)
                pre = [_day_choice(path, Days, "pre%d" % k) for k in range(case["after"])]
                dis = b_and(*[b_not(i_eq(pre[a][1], pre[b][1])) for a in range(len(pre)) for b in range(a + 1, len(pre))])
                path.assume(bterm(dis))
                try:
                    tools.weekdays_to_hexadecimal([p[0] for p in pre])
                except Exception:  # noqa: BLE001
                    pass
                info["before"] = lambda m: [{"enum": "Days." + DAYN[C.ev_int(m, p[1])]} for p in pre]
            els, idxs = [], []
            for k in range(n):
                d, idx = _day_choice(path, Days, "el%d" % k)
                els.append(d)
                idxs.append(idx)
            arg = list(els) if form == "list" else tuple(els)
            dup = b_or(*[i_eq(idxs[a], idxs[b]) for a in range(n) for b in range(a + 1, n)])
            mask = 0
            for k in range(7):
                present = b_or(*[i_eq(i, k) for i in idxs])
                mask = mask + i_ite(present, 1 << (k + 1), 0)
            info["mask"], info["dup"], info["empty"] = mask, dup, n == 0
            key = "list" if form == "list" else "tuple"
            info["json"] = lambda m: ({key: [{"enum": "Days." + DAYN[C.ev_int(m, i)]} for i in idxs]} if key == "tuple"
                                      else [{"enum": "Days." + DAYN[C.ev_int(m, i)]} for i in idxs])
        elif form == "decode":
            mask = A.fresh_int(path, "mask", -(1 << 20), 1 << 20)
            info["mask_in"] = mask
            info["json"] = lambda m: C.ev_int(m, mask)
            if case.get("after"):
                # an earlier decode whose caller then empties the set it was handed (its own object to do with as it likes)
                # (the same mask: where a remembered result would be handed out again)
                path.assume(bterm(b_and(mask >= 2, mask <= 254)))
                r0 = tools.bit_summary_to_days(mask)
                SYM.callm(r0, "clear", (), {})
                info["before"] = lambda m: C.ev_int(m, mask)
                info["clears"] = True
            try:
                r = tools.bit_summary_to_days(mask)
                return ("ok", r, info)
            except Exception as e:  # noqa: BLE001
                return ("exc", e, info)
        elif form == "roundtrip":
            s, mask, guards = TA.sym_dayset(path, sched)
            info["guards"] = guards
            info["json"] = lambda m: {"set": [{"enum": "Days." + n} for n, g in zip(DAYN, guards) if C.ev_bool(m, g)]}
            path.assume(bterm(b_or(*guards)))
            try:
                h = tools.weekdays_to_hexadecimal(s)
                back = tools.bit_summary_to_days(_IntShadow(h, 16))
                return ("ok", back, info)
            except Exception as e:  # noqa: BLE001
                return ("exc", e, info)
        try:
            r = tools.weekdays_to_hexadecimal(arg)
            return ("ok", r, info)
        except Exception as e:  # noqa: BLE001
            return ("exc", e, info)

    n = 0
    for path, out, exc in eng.explore(body):
        if exc is not None:
            raise exc
        n += 1
        path.twin("C12")
        tag, r, info = out
        checks = []
        if form in ("single", "set", "list", "tuple"):
            legal = b_and(b_not(info["dup"]), b_not(info["empty"]))
            if tag == "ok":
                v, is2hex = _hex2_value(r)
                checks.append(("rejects_empty_or_duplicates", b_not(legal)))
                if v is None:
                    checks.append(("two_lowercase_hex_digits", True))
                else:
                    checks.append(("two_lowercase_hex_digits", b_not(is2hex)))
                    checks.append(("mask_bits", b_and(legal, b_not(b_and(i_eq(v, info["mask"]), i_eq(v & 1, 0))))))
            else:
                checks.append(("accepts_legal_input", legal))
                if not isinstance(r, ValueError):
                    checks.append(("raises_ValueError", True))
        elif form == "decode":
            mask = info["mask_in"]
            inr = b_and(mask >= 2, mask <= 254)
            if tag == "ok":
                checks.append(("rejects_out_of_range_mask", b_not(inr)))
                if not isinstance(r, (SymSet, set, frozenset)):
                    raise E.Unsupported("decode returned %r" % type(r).__name__)
                for k, d in enumerate([Days[n] for n in DAYN]):
                    has = r.contains(d) if isinstance(r, SymSet) else (d in r)
                    bit = b_not(i_eq(mask & (1 << (k + 1)), 0))
                    checks.append(("decoded_days_equal_bits", b_not(b_iff(has, bit))))
            else:
                checks.append(("accepts_mask_2_254", inr))
        elif form == "roundtrip":
            if tag == "ok":
                for g, d in zip(info["guards"], [Days[n] for n in DAYN]):
                    has = r.contains(d) if isinstance(r, SymSet) else (d in r)
                    checks.append(("decode_encode_identity", b_not(b_iff(has, g))))
            else:
                checks.append(("roundtrip_raises", True))
        for lbl, bad in checks:
            res["checks"][lbl] = res["checks"].get(lbl, 0) + 1
            if bad is False:
                eng.stats.checks += 1
                eng.stats.checks_discharged += 1
                continue
            m = path.refute(bterm(bad))
            if m is not None:
                res["violations"].append({"what": "C12 %s (%s)" % (lbl, form), "case": case, "replay": _replay(form, info, m)})
        mw = path.witness()
        exp = C.conc(mw, r) if tag == "ok" else {"exception": type(r).__name__}
        res["witnesses"].append({"replay": _replay(form, info, mw), "expected": exp})
        if len(res["samples"]) < 2:
            res["samples"].append({"case": case, "witness_input": _replay(form, info, mw)["args"], "result": exp})
    if n == 0:
        raise E.HarnessError("no path")


def _replay(form, info, m):
    r = _replay0(form, info, m)
    if "before" in info:
        r["before"] = [[info["before"](m)]]
    if info.get("clears"):
        r["caller_clears_result"] = True
    return r


def _replay0(form, info, m):
    if form == "decode":
        return {"kind": "call", "func": "schedule.tools:bit_summary_to_days", "args": [info["json"](m)], "oracle": "C12dec"}
    if form == "roundtrip":
        return {"kind": "c12_roundtrip", "args": [info["json"](m)], "oracle": "C12rt"}
    return {"kind": "call", "func": "schedule.tools:weekdays_to_hexadecimal", "args": [info["json"](m)], "oracle": "C12enc"}


def main(tier):
    t0 = time.time()
    cases = [{"form": "single"}, {"form": "set"}, {"form": "decode"}, {"form": "roundtrip"}]
    for f in ("list", "tuple"):
        for n in range(0, 4 if tier == "quick" else 5):
            cases.append({"form": f, "n": n})
    cases.append({"form": "list", "n": 3, "after": 2})
    cases.append({"form": "list", "n": 2, "after": 1})
    cases.append({"form": "decode", "after": 1})
    results = H.run_cases("harness.C12", "run_case", cases)
    nw = H.validate_call_witnesses(results)
    H.finish(PID, tier, "model_checking", results, t0,
             rule="one symbolic run per input form: single day (choice of 7), set (7 free membership bits), list/tuple of n "
                  "symbolic days (duplicates allowed), mask in [-2^20, 2^20], and encode->decode composition",
             bounds={"sequences": "length 0..%d" % (3 if tier == "quick" else 4), "mask": "[-2^20, 2^20]"},
             assumptions=["Days enum members are the 7 alternatives of each symbolic day"],
             technique="SHADOW symbolic execution of the real Python source + z3 QF_BV",
             witness_checked=nw, exhaustive_splits=True,
             extra={"states": sum(r["stats"]["feasible_paths"] for r in results),
                    "transitions": sum(r["stats"]["branch_decisions"] for r in results)})
