from harness.timeprops import main_c13 as main  # noqa: F401
