"""C14 - a schedule's duration is (end - start) modulo 24 hours."""
import time

import z3

from harness import common as H
from shadow import loader, engine as E, concretize as C, timeenv
from shadow.values import SymSeq, SymInt, U8, Opaque, b_and, b_not, bterm, i_eq, i_ite

PID = "C14"


def sym_time_text(path, tag, hd, md):
    """H:M text with hd hour digits and md minute digits (all symbolic, valid time)"""
    ds = [path.fresh_bv("%s_d%d" % (tag, i), 8) for i in range(hd + md)]
    path.constrain(z3.And(*[z3.And(z3.UGE(x, 48), z3.ULE(x, 57)) for x in ds]))
    dig = [SymInt.mk(z3.ZeroExt(1, x) - 48, 0, 9) for x in ds]
    h = dig[0] * 10 + dig[1] if hd == 2 else dig[0]
    mm = dig[hd:]
    m = mm[0] * 10 + mm[1] if md == 2 else mm[0]
    path.constrain(z3.And(bterm(h <= 23) if not isinstance(h <= 23, bool) else z3.BoolVal(True),
                          bterm(m <= 59) if not isinstance(m <= 59, bool) else z3.BoolVal(True)))
    units = [U8(x, True) for x in ds[:hd]] + [58] + [U8(x, True) for x in ds[hd:]]
    return SymSeq("str", units), h, m


def run_case(case, eng, res):
    tools = loader.load("schedule.tools")
    if case.get("via") == "schedule":
        from harness.C10 import Summary
        loader.override(tools.__name__, "pretty_next_run", lambda *a, **k: Summary("next_run", list(a)))
    try:
        _run_case(case, eng, res, tools)
    finally:
        loader.clear_overrides()


def _time_env(path, m, rows):
    """zone and clock of a replay (the unchanged code never looks at either; a change that does is replayed where it looked)"""
    te = path.notes["timeenv"]
    d = {"zone": rows[C.ev_int(m, te.zi)]["zone"]}
    if te.reads:
        d["clock"] = [C.ev_int(m, t) + 0.25 for t in te.reads]
    return d


def _run_case(case, eng, res, tools):
    from harness import timeprops

    timeprops.TIER[0] = case.get("tier", "quick")
    rows = timeprops.rows_of(case.get("zone", "America/New_York"))

    def body(path):
        timeenv.setup(path, rows)
        s, h1, m1 = sym_time_text(path, "s", case["shd"], case["smd"])
        e, h2, m2 = sym_time_text(path, "e", case["ehd"], case["emd"])
        try:
            if case.get("via") == "schedule":
                parser_mod = loader.load("schedule.parser")
                obj = parser_mod.SwitcherSchedule("1", bool(case.get("recurring")), set(), s, e)
                r = obj.duration
            else:
                r = tools.calc_duration(s, e)
            return ("ok", r, s, e, h1, m1, h2, m2)
        except Exception as ex:  # noqa: BLE001
            return ("exc", ex, s, e, h1, m1, h2, m2)

    n = 0
    for path, out, exc in eng.explore(body):
        if exc is not None:
            raise exc
        n += 1
        path.twin("C14")
        tag, r, s, e, h1, m1, h2, m2 = out
        m = None
        if tag == "exc":
            bad = True
        else:
            d = (h2 * 60 + m2) - (h1 * 60 + m1)
            exp = i_ite(d < 0, d + 1440, d) * 60
            if isinstance(r, Opaque) and r.okind == "TimedeltaStr":
                bad = b_not(b_and(i_eq(r.args[0], exp), r.args[0] >= 0, r.args[0] < 86400))
            else:
                raise E.Unsupported("calc_duration returned %r" % type(r).__name__)
        res["checks"]["duration_mod_24h"] = res["checks"].get("duration_mod_24h", 0) + 1
        if bad is not False:
            m = path.refute(bterm(bad))
            if m is not None:
                a = [C.ev_seq(m, s), C.ev_seq(m, e)]
                rp = {"kind": "call", "func": "schedule.tools:calc_duration", "args": a, "oracle": "C14"}
                if case.get("via") == "schedule":
                    rp = {"kind": "c14_schedule", "args": a, "recurring": bool(case.get("recurring")), "oracle": "C14"}
                rp.update(_time_env(path, m, rows))
                res["violations"].append({"what": "C14 duration of %s..%s" % tuple(a), "case": case, "replay": rp})
        else:
            eng.stats.checks += 1
            eng.stats.checks_discharged += 1
        mw = path.witness()
        a = [C.ev_seq(mw, s), C.ev_seq(mw, e)]
        if case.get("via") == "schedule":
            continue
        res["witnesses"].append({"replay": dict({"kind": "call", "func": "schedule.tools:calc_duration", "args": a, "oracle": "C14"},
                                                **_time_env(path, mw, rows)),
                                 "expected": C.conc(mw, r) if tag == "ok" else {"exception": type(r).__name__}})
        if len(res["samples"]) < 1:
            res["samples"].append({"case": case, "path_decisions": [l for l in path.labels], "witness": a,
                                   "result": C.conc(mw, r) if tag == "ok" else type(r).__name__})
    if n == 0:
        raise E.HarnessError("no path")


def main(tier):
    t0 = time.time()
    cases = [{"shd": a, "smd": b, "ehd": c, "emd": d} for a in (2, 1) for b in (2, 1) for c in (2, 1) for d in (2, 1)]
    if tier == "quick":
        cases = [c for c in cases if (c["smd"], c["emd"]) == (2, 2)]
    # the duration a schedule object reports (recurring or not)
    cases += [{"shd": 2, "smd": 2, "ehd": 2, "emd": 2, "via": "schedule", "recurring": rec} for rec in (False, True)]
    # the process's zone and clock are free too (a symbolic row of the zone table, DESIGN 3.5): the duration may depend on neither
    for c in cases:
        c["tier"] = tier
    extra = ["Europe/London", "Australia/Lord_Howe"] if tier == "quick" else [z for z in timeenv.ZONES if z != "America/New_York"]
    cases += [{"shd": 2, "smd": 2, "ehd": 2, "emd": 2, "zone": z, "tier": tier} for z in extra]
    results = H.run_cases("harness.C14", "run_case", cases)
    nw = H.validate_call_witnesses(results)
    H.finish(PID, tier, "model_checking", results, t0,
             rule="all 1440 x 1440 (start, end) pairs per digit-shape case in one symbolic run; paths = end<start or not",
             bounds={"times": "every valid H:M with 1- or 2-digit hour (and minute in thorough tier)"},
             assumptions=["datetime.strptime('%H:%M') accepts exactly CPython's compiled pattern (stub)",
                          "str(timedelta) renders H:MM:SS for 0 <= secs < 86400 (checked on each witness against CPython)"],
             technique="SHADOW symbolic execution of the real Python source + z3 QF_BV",
             witness_checked=nw, exhaustive_splits=True,
             extra={"states": sum(r["stats"]["feasible_paths"] for r in results),
                    "transitions": sum(r["stats"]["branch_decisions"] for r in results), "exhaustive": True})
