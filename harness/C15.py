"""C15 - the IR command built is the stored code that best matches the request."""
import time

import z3

from harness import common as H, apiops as A
from harness.symops import O
from shadow import loader, engine as E, concretize as C, timeenv, stubs, floats as FL
from shadow.dispatch import SymDict
from shadow.values import (SymSeq, SymInt, SymBool, SymChoice, Blob, b_and, b_not, b_or, b_iff, b_implies, bterm, i_eq,
                           i_ite, sym_eq, is_sym)

PID = "C15"
MODES = ["AUTO", "DRY", "FAN", "COOL", "HEAT"]
MODE_CMD = {"AUTO": "aa", "DRY": "ad", "FAN": "aw", "COOL": "ar", "HEAT": "ah"}
FANS = ["LOW", "MEDIUM", "HIGH", "AUTO"]
FAN_CMD = {"AUTO": "f0", "LOW": "f1", "MEDIUM": "f2", "HIGH": "f3"}
DISPLAY = {"AUTO": "auto", "DRY": "dry", "FAN": "fan", "COOL": "cool", "HEAT": "heat"}


class LazyWaveMap(SymDict):
    """the remote's key -> {Para, HexCode} map over the key universe: one presence bit per key, created on demand,
    tied to the capability fields by the representation invariant (a present key's mode is supported and its
    temperature lies inside [min, max])"""

    def __init__(self, path, supported, tmin, tmax, tag=""):
        SymDict.__init__(self)
        self.tag = tag
        self.path, self.supported, self.tmin, self.tmax = path, supported, tmin, tmax
        self.touched = []

    def _entry(self, key):
        if not isinstance(key, str):
            raise E.Unsupported("symbolic IR key")
        if key in self.entries:
            return self.entries[key]
        g = SymBool(self.path.fresh_bool(self.tag + "has_" + key))
        body = key[3:] if key.startswith("on_") else key
        inv = []
        mode = {v: k for k, v in MODE_CMD.items()}.get(body[0:2])
        if mode is not None and not key.startswith("on_"):
            inv.append(mode in self.supported)
        if body[2:4].isdigit() and not key.startswith("on_"):
            t = int(body[2:4])
            inv.append(b_and(self.tmin <= t, self.tmax >= t))
        if inv:
            c = b_implies(g, b_and(*inv))
            if c is False:
                g = False
            elif c is not True:
                self.path.constrain(bterm(c))
        val = {"Para": SymSeq("str", [Blob(self.tag + key + "_P", "raw", A.fresh_int(self.path, self.tag + "len_" + key + "_P", 0, 1000))]),
               "HexCode": SymSeq("str", [Blob(self.tag + key + "_H", "raw", A.fresh_int(self.path, self.tag + "len_" + key + "_H", 0, 1000))])}
        self.entries[key] = (g, val)
        self.touched.append(key)
        return self.entries[key]

    def present(self, key):
        return self._entry(key)[0]

    def lookup(self, key):
        g, v = self._entry(key)
        if g is True or (g is not False and bool(g)):
            return v
        raise KeyError(key)


def make_remote(path, remotes, dev, case):
    R = object.__new__(remotes.SwitcherBreezeRemote)
    lo, hi = case.get("trange", [10, 35])
    if case.get("no_temps"):
        R._min_temp, R._max_temp = 100, -100
    else:
        tmin = A.fresh_int(path, case.get("tag", "") + "min_temp", lo, hi)
        tmax = A.fresh_int(path, case.get("tag", "") + "max_temp", lo, hi)
        path.assume(bterm(tmin <= tmax))
        R._min_temp, R._max_temp = tmin, tmax
    R._on_off_type = bool(case["toggle"])
    R._remote_id = "ELEC7022" if case.get("separated") else "DUMMY001"
    R._separated_swing_command = bool(case.get("separated"))
    supported = case["supported"]
    R._modes_features = {getattr(dev.ThermostatMode, m): {"swing": False, "fan_levels": set(), "temperature_control": False}
                         for m in MODES if m in supported}
    R._ir_wave_map = LazyWaveMap(path, supported, R._min_temp, R._max_temp, tag=case.get("tag", ""))
    return R


def command_is(cmd, wm, key):
    """the built command is '00000000' + hex('Para|HexCode' of `key`) with length = LE16(4 + len) as 4 hex digits"""
    if key not in wm.entries:
        return False
    val = wm.entries[key][1]
    text = val["Para"] + "|" + val["HexCode"]
    exp = SymSeq.of("00000000") + stubs.s_hexlify(text.m_encode()).m_decode()
    c = cmd.command if isinstance(cmd.command, SymSeq) else SymSeq.of(cmd.command)
    if len(c.items) != len(exp.items):
        return False
    for a, b in zip(c.items, exp.items):
        if isinstance(a, Blob) or isinstance(b, Blob):
            if not (isinstance(a, Blob) and isinstance(b, Blob) and a.bid == b.bid and a.view == b.view):
                return False
        elif not (isinstance(a, int) and isinstance(b, int) and a == b):
            return False
    n = text.length() + 4
    ln = cmd.length if isinstance(cmd.length, SymSeq) else SymSeq.of(cmd.length)
    if ln.kind != "str" or ln.has_blob() or len(ln.items) != 4:
        return False
    return stubs.s_unhexlify(ln).eq(O.le16(n)) if not isinstance(stubs.s_unhexlify(ln), bytes) else (stubs.s_unhexlify(ln) == bytes(O.le16(n).items) if not is_sym(n) else SymSeq.of(stubs.s_unhexlify(ln)).eq(O.le16(n)))


def run_case(case, eng, res):
    remotes = loader.load("api.remotes")
    dev = loader.load("device")
    kind = case["kind"]
    if kind == "capabilities":
        return run_capabilities(case, eng, res, remotes, dev)
    if kind == "manager":
        return run_manager(case, eng, res, remotes, dev)
    state = getattr(dev.DeviceState, case["state"])
    mode = getattr(dev.ThermostatMode, case["mode"])
    fan = getattr(dev.ThermostatFanLevel, case["fan"])
    swing = getattr(dev.ThermostatSwing, case["swing"])
    prev = None if case["prev"] is None else getattr(dev.DeviceState, case["prev"])

    def body(path):
        timeenv.setup(path)
        if case.get("after_other"):
            # another remote (its own key coverage) answered the same request earlier in this process
            other = make_remote(path, remotes, dev, dict(case, tag="o_"))
            t0 = A.fresh_int(path, "o_target", -5, 70)
            try:
                other.build_command(state, mode, t0, fan, swing, prev)
            except Exception:  # noqa: BLE001
                pass
            path.notes["other"] = (other, t0)
        R = make_remote(path, remotes, dev, case)
        target = A.fresh_int(path, "target", -5, 70)
        info = dict(R=R, target=target)
        try:
            if kind == "swing":
                info["cmd"] = R.build_swing_command(swing)
            else:
                info["cmd"] = R.build_command(state, mode, target, fan, swing, prev)
            return ("ok", info)
        except Exception as e:  # noqa: BLE001
            info["exc"] = e
            return ("exc", info)

    n = 0
    for path, out, exc in eng.explore(body):
        if exc is not None:
            raise exc
        n += 1
        path.twin("C15")
        tag, info = out
        R, target = info["R"], info["target"]
        wm = R._ir_wave_map
        checks = []
        if kind == "swing":
            key = "FUN_d0" if case["swing"] == "OFF" else "FUN_d1"
            g = wm.present(key)
            if tag == "ok":
                checks.append(("swing_command_is_the_stored_code", b_not(b_and(g, command_is(info["cmd"], wm, key)))))
            else:
                checks.append(("missing_swing_key_raises_RuntimeError", False if isinstance(info["exc"], RuntimeError) else True))
                checks.append(("present_swing_key_is_used", g))
        elif case["mode"] not in case["supported"]:
            ok = tag == "exc" and isinstance(info["exc"], RuntimeError)
            if ok:
                msg = str(info["exc"].args[0]) if not is_sym(info["exc"].args[0]) else C.ev_seq(path.witness(), info["exc"].args[0])
                names = msg.split("are:")[-1].replace(" ", "").split(",") if "are:" in msg else []
                ok = sorted(x for x in names if x) == sorted(DISPLAY[m] for m in case["supported"])
            checks.append(("unsupported_mode_refused_naming_supported_modes", not ok))
        else:
            # reference key chain
            tmin, tmax = R._min_temp, R._max_temp
            nontoggle_off = (not case["toggle"]) and case["state"] == "OFF"
            bads = []
            if nontoggle_off:
                cands_of = {None: ["off"]}
                Tvals = [None]
            else:
                pre = "on_" if (case["toggle"] and case["prev"] is not None and case["prev"] != case["state"]) else ""
                body_ = MODE_CMD[case["mode"]]
                if case["mode"] in ("COOL", "HEAT"):
                    lo, hi = case.get("trange", [10, 35])
                    Tvals = list(range(lo, hi + 1)) if not case.get("no_temps") else []
                else:
                    Tvals = [None]
                cands_of = {}
                for T in Tvals:
                    b = body_ + (str(T) if T is not None else "")
                    full = pre + b + "_" + FAN_CMD[case["fan"]] + ("_d1" if case["swing"] == "ON" else "")
                    nosw = pre + b + "_" + FAN_CMD[case["fan"]]
                    nofan = pre + b
                    cs = []
                    for k in (full, nosw, nofan):
                        if k not in cs:
                            cs.append(k)
                    cands_of[T] = cs
            clampT = None
            if not nontoggle_off and case["mode"] in ("COOL", "HEAT") and not case.get("no_temps"):
                from shadow.values import i_ite as ite
                clampT = ite(target > tmax, tmax, ite(target < tmin, tmin, target))
            for T in Tvals:
                here = True if T is None else i_eq(clampT, T)
                if here is False:
                    continue
                cs = cands_of[T]
                gs = [wm.present(k) for k in cs]
                prior = True
                for k, g in zip(cs, gs):
                    is_k = command_is(info["cmd"], wm, k) if tag == "ok" else False
                    bads.append(b_and(here, prior, g, b_not(is_k)))
                    prior = b_and(prior, b_not(g))
            checks.append(("command_is_the_most_specific_stored_code", b_or(*bads) if bads else False))
        H.discharge(path, eng, res, checks, lambda lbl, m: {"what": "C15 %s" % lbl, "case": case, "replay": c15_replay(path, m, case, info)})
        mw = path.witness()
        res["witnesses"].append({"replay": c15_replay(path, mw, case, info, oracle=None),
                                 "expected": {"exception": type(info["exc"]).__name__ if tag == "exc" else None,
                                              "command": C.conc(mw, info["cmd"].command) if tag == "ok" else None,
                                              "length": C.conc(mw, info["cmd"].length) if tag == "ok" else None}})
        if len(res["samples"]) < 1:
            res["samples"].append({"case": case, "outcome": tag, "touched_keys": list(wm.touched)[:8]})
    if n == 0:
        raise E.HarnessError("no feasible path")


def ir_set_json(m, case, R):
    """an IR set file realising the model: touched keys that are present, plus dummy waves for the capability fields"""
    wm = R._ir_wave_map
    waves = []
    for mname in case["supported"]:
        waves.append({"Key": MODE_CMD[mname] + "_zz", "Para": "P", "HexCode": "C"})
    if not case.get("no_temps"):
        for t in (C.ev_int(m, R._min_temp), C.ev_int(m, R._max_temp)):
            waves.append({"Key": "zz%02d" % t, "Para": "P", "HexCode": "C"})
    for key in wm.touched:
        g, val = wm.entries[key]
        if g is True or (g is not False and C.ev_bool(m, g)):
            waves.append({"Key": key, "Para": C.ev_seq(m, val["Para"]), "HexCode": C.ev_seq(m, val["HexCode"])})
    return {"IRSetID": R._remote_id, "OnOffType": 1 if case["toggle"] else 0, "IRWaveList": waves}


def c15_replay(path, m, case, info, oracle="C15"):
    d = {"kind": "c15", "case": case, "ir_set": ir_set_json(m, case, info["R"]), "target": C.ev_int(m, info["target"]),
         "oracle": oracle}
    if "other" in path.notes:
        other, t0 = path.notes["other"]
        d["other"] = {"ir_set": ir_set_json(m, case, other), "target": C.ev_int(m, t0)}
    return d


# ------------------------------------------------------------------------------- capabilities
CAP_KEYS = ["aa", "aa_f1", "ad_f0_d1", "aw_f3", "ar16", "ar16_f1", "ar30_f2_d1", "ah10_f0", "ah35_f3_d1", "ar25", "off", "FUN_d0", "FUN_d1",
            "on_ar20_f1", "on_aa_f1", "zz99", "ar07_f1"]


def run_capabilities(case, eng, res, remotes, dev):
    nw = case["waves"]

    def body(path):
        timeenv.setup(path)
        idxs = [A.fresh_int(path, "wave%d" % k, 0, len(CAP_KEYS) - 1) for k in range(nw)]
        onoff = A.fresh_int(path, "onoff", 0, 2)
        keys = [CAP_KEYS[path.choose_value(i.t, "wavekey")] for i in idxs]
        oo = path.choose_value(onoff.t, "onofftype")
        ir = {"IRSetID": case["rid"], "OnOffType": oo, "IRWaveList": [{"Key": k, "Para": "P%d" % j, "HexCode": "C%d" % j} for j, k in enumerate(keys)]}
        try:
            return ("ok", remotes.SwitcherBreezeRemote(ir), ir)
        except Exception as e:  # noqa: BLE001
            return ("exc", e, ir)

    n = 0
    for path, out, exc in eng.explore(body):
        if exc is not None:
            raise exc
        n += 1
        tag, R, ir = out
        keys = [w["Key"] for w in ir["IRWaveList"]]
        bad = None
        if tag != "ok":
            bad = "construction raised %s" % type(R).__name__
        else:
            inv = {v: k for k, v in MODE_CMD.items()}
            want_modes = []
            for k in keys:
                mname = inv.get(k[0:2])
                if mname and mname not in want_modes:
                    want_modes.append(mname)
            temps = [int(k[2:4]) for k in keys if k[2:4].isdigit()]
            got_modes = [m_.name for m_ in R.supported_modes]
            if sorted(got_modes) != sorted(want_modes):
                bad = "supported modes %r, set holds %r" % (got_modes, want_modes)
            elif temps and (R.min_temperature, R.max_temperature) != (min(temps), max(temps)):
                bad = "temperature range %r, set holds %r" % ((R.min_temperature, R.max_temperature), (min(temps), max(temps)))
            elif R.on_off_type is not (ir["OnOffType"] == 1):
                bad = "toggle flag %r for OnOffType %r" % (R.on_off_type, ir["OnOffType"])
            elif R.separated_swing_command is not (case["rid"] in ("ELEC7022", "ZM079055", "ZM079065", "ZM079049")):
                bad = "separate swing flag %r for %s" % (R.separated_swing_command, case["rid"])
            elif R.remote_id != case["rid"]:
                bad = "remote id"
        res["checks"]["capabilities"] = res["checks"].get("capabilities", 0) + 1
        eng.stats.checks += 1
        if bad is None:
            eng.stats.checks_discharged += 1
        else:
            res["violations"].append({"what": "C15 capabilities: %s" % bad, "case": case,
                                      "replay": {"kind": "c15", "case": case, "ir_set": ir, "oracle": "C15cap"}})
        if len(res["samples"]) < 1:
            res["samples"].append({"case": case, "keys": keys})
    if n == 0:
        raise E.HarnessError("no path")


def run_manager(case, eng, res, remotes, dev):
    """get_remote loads the set once and returns the identical object afterwards"""
    import json as _json
    import os
    import tempfile

    ir = {"IRSetID": "DUMMY001", "OnOffType": 0, "IRWaveList": [{"Key": "aa_f1", "Para": "P", "HexCode": "C"}]}
    with tempfile.NamedTemporaryFile("w", suffix=".json", delete=False, dir="/tmp") as fh:
        _json.dump({"DUMMY001": ir}, fh)
        p = fh.name
    try:
        def body(path):
            mgr = remotes.SwitcherBreezeRemoteManager(p)
            a = mgr.get_remote("DUMMY001")
            os.rename(p, p + ".moved")
            try:
                b = mgr.get_remote("DUMMY001")
            finally:
                os.rename(p + ".moved", p)
            return a, b

        for path, out, exc in eng.explore(body):
            res["checks"]["manager_cache"] = res["checks"].get("manager_cache", 0) + 1
            eng.stats.checks += 1
            if exc is None and out[0] is out[1] and out[0].remote_id == "DUMMY001":
                eng.stats.checks_discharged += 1
            else:
                res["violations"].append({"what": "C15 get_remote does not cache / load (%s)" % (type(exc).__name__ if exc else "different objects"),
                                          "case": case, "replay": {"kind": "c15", "case": case, "oracle": "C15mgr"}})
            res["samples"].append({"case": case})
    finally:
        os.unlink(p)


def _cmp(exp, o):
    if exp["exception"]:
        return o.get("exception") == exp["exception"]
    return o.get("command") == exp["command"] and o.get("length") == exp["length"]


def main(tier):
    t0 = time.time()
    cases = []
    trange = [16, 20] if tier == "quick" else [10, 35]
    for toggle in (0, 1):
        for state in ("ON", "OFF"):
            for prev in (None, "ON", "OFF"):
                for mode in MODES:
                    for fan in (FANS if tier == "thorough" else ["LOW", "AUTO"]):
                        for swing in ("ON", "OFF"):
                            for sep in (False, True):
                                if sep and tier == "quick" and (fan != "LOW" or prev == "OFF"):
                                    continue
                                cases.append({"kind": "build", "toggle": toggle, "state": state, "prev": prev, "mode": mode, "fan": fan,
                                              "swing": swing, "supported": MODES, "trange": trange, "separated": sep})
    for mode in MODES:
        for sup in (["COOL"], ["AUTO", "DRY", "FAN"], ["HEAT", "COOL", "AUTO"], []):
            if mode in sup:
                continue
            cases.append({"kind": "build", "toggle": 0, "state": "ON", "prev": None, "mode": mode, "fan": "LOW", "swing": "OFF",
                          "supported": sup, "trange": trange})
    cases.append({"kind": "build", "toggle": 0, "state": "ON", "prev": None, "mode": "COOL", "fan": "LOW", "swing": "ON",
                  "supported": MODES, "no_temps": True})
    for mode in ("COOL", "AUTO"):
        for swing in ("ON", "OFF"):
            cases.append({"kind": "build", "toggle": 0, "state": "ON", "prev": None, "mode": mode, "fan": "LOW", "swing": swing,
                          "supported": MODES, "trange": [16, 17], "after_other": True})
    for sw in ("ON", "OFF"):
        cases.append({"kind": "swing", "toggle": 0, "state": "ON", "prev": None, "mode": "COOL", "fan": "LOW", "swing": sw,
                      "supported": MODES, "separated": True, "trange": trange})
    for rid in ("ELEC7022", "DUMMY001", "ZM079065"):
        cases.append({"kind": "capabilities", "rid": rid, "waves": 2 if tier == "quick" else 3})
    cases.append({"kind": "manager"})
    results = H.run_cases("harness.C15", "run_case", cases, timeout_ms=120000 if tier == "quick" else 600000)
    nw = H.validate_call_witnesses(results, cmp=_cmp)
    H.finish(PID, tier, "model_checking", results, t0,
             rule="build_command from an arbitrary valid remote state: presence bit per key of the key universe (created on demand), code "
                  "texts of symbolic length, min/max and target symbolic, under the representation invariant; the discrete request "
                  "(power, mode, fan, swing, previous power, toggle type) is split into cases; capabilities: every IR set of n waves over "
                  "a representative key list, key choice a solver variable",
             bounds={"temperatures in the set": "%d..%d" % tuple(trange), "requested temperature": "-5..70",
                     "code texts": "Para, HexCode 0..1000 bytes each", "capability sets": "%d waves over %d representative keys" % (2 if tier == "quick" else 3, len(CAP_KEYS)),
                     "fan levels split": "all 4" if tier == "thorough" else "LOW, AUTO"},
             assumptions=["representation invariant: a present key's mode is supported and its temperature lies in [min, max]",
                          "when none of the three candidate keys is present the statement is silent"],
             technique="SHADOW symbolic execution of the real Python source + z3 QF_UFBV",
             witness_checked=nw, exhaustive_splits=False,
             extra={"states": sum(r["stats"]["feasible_paths"] for r in results),
                    "transitions": sum(r["stats"]["branch_decisions"] for r in results)})
