"""C16 - thermostat control changes only what was asked."""
import time

import z3

from harness import common as H, apiops as A, breezeargs as BA
from harness.symops import O
from shadow import loader, engine as E, concretize as C, timeenv, aio, floats as FL
from shadow.values import (SymSeq, SymInt, SymBool, SymChoice, Blob, b_and, b_not, b_or, b_iff, b_implies, bterm, i_eq,
                           i_ite, sym_eq)
from spec import replies as SR, frames as SF, opspec as SO

PID = "C16"


def enum_code(dev, x, table):
    """integer code of an enum value (concrete member or symbolic choice) under `table` (member name -> code)"""
    if isinstance(x, SymChoice):
        out = 0
        for k, alt in enumerate(x._alts):
            out = out + i_ite(x.cond_is(k), table[alt.name], 0)
        return out
    return table[x.name]


STATE_CODE = {"ON": 1, "OFF": 0}
MODE_CODE = {"AUTO": 1, "DRY": 2, "FAN": 3, "COOL": 4, "HEAT": 5}
FAN_CODE = {"AUTO": 0, "LOW": 1, "MEDIUM": 2, "HIGH": 3}
SWING_CODE = {"OFF": 0, "ON": 1}


def run_case(case, eng, res):
    dev = loader.load("device")
    given = case["given"]
    sep = bool(case["separated"])
    upd = bool(case["update"])
    fault = case.get("fault")

    def plan(path, case_, run, tag):
        BA.reply_plan(path, case_, run, tag)
        st = run.extra["state_reply"]
        if isinstance(st, SymSeq):
            r = SR.decode(O, st, "thermostat")
            # device-side domain (the defaults for unknown codes are decided by C08)
            path.assume(bterm(b_and(r["mode"] >= 1, r["mode"] <= 5, r["fan"] <= 3, r["swing"] <= 1, r["state"] <= 1)))
            run.extra["decoded"] = r

    def body(path):
        c = dict(case, op="control_breeze_device")
        if case.get("twice"):
            # an earlier control call on the same client object (the device state may have changed since)
            first = A.run_op(path, dict(c, simple_state=True), tag="first")
            run = A.run_op(path, c, reply_plan=plan, api=first.api, dev=first.dev)
            run.extra["first"] = first
            return run
        return A.run_op(path, c, reply_plan=plan)

    n = 0
    for path, run, exc in eng.explore(body):
        if exc is not None:
            raise exc
        n += 1
        path.twin("C16")
        remote = run.extra["remote"]
        req = run.extra["req"]
        frames = run.frames
        checks = []
        s, m_, t, f, w = given
        actionable = bool(s or m_ or t or f or (w and not sep))
        swing_cmd = bool(sep and w and not upd)
        succ = run.result.successful if run.outcome == "ok" else None

        def never_success():
            if run.outcome == "ok":
                checks.append(("empty_reply_never_reports_success", succ if not isinstance(succ, bool) else bool(succ)))

        if fault == "login":
            if not (run.outcome == "exc" and isinstance(run.result, RuntimeError)) or len(frames) != 1:
                checks.append(("empty_login_reply_raises_RuntimeError_no_frame", True))
        elif not actionable and not swing_cmd:
            if not (run.outcome == "exc" and isinstance(run.result, RuntimeError)):
                checks.append(("nothing_actionable_raises_RuntimeError", True))
            if len(frames) != 1 or remote.calls:
                checks.append(("nothing_actionable_sends_no_command", True))
        elif fault == "state" and actionable:
            if not (run.outcome == "exc" and isinstance(run.result, RuntimeError)) or len(frames) != 2 or remote.calls:
                checks.append(("empty_state_reply_raises_and_sends_no_command", True))
        else:
            r = run.extra.get("decoded")
            exp_frames = 1 + (2 if actionable else 0) + (1 if swing_cmd and not (fault == "command" and actionable) else 0)
            if fault == "command" and actionable:
                never_success()
                if run.outcome != "exc" or not isinstance(run.result, RuntimeError):
                    checks.append(("empty_command_reply_raises_RuntimeError", True))
            elif fault == "swing" and swing_cmd:
                never_success()
            elif fault is None and run.outcome != "ok":
                checks.append(("control_succeeds", True))
            if len(frames) != exp_frames:
                checks.append(("frame_count", True))
            calls = list(remote.calls)
            if actionable and len(frames) >= 3:
                cmdf = frames[2]
                # merged values: requested if given else what the device just reported
                dstate = i_ite(i_eq(r["state"], 0), 0, 1)
                want = {
                    "state": enum_code(dev, req["state"], STATE_CODE) if s else dstate,
                    "mode": enum_code(dev, req["mode"], MODE_CODE) if m_ else r["mode"],
                    "target": req["target_temp"] if t else r["target"],
                    "fan": enum_code(dev, req["fan_level"], FAN_CODE) if f else r["fan"],
                    "swing": 0 if sep else (enum_code(dev, req["swing"], SWING_CODE) if w else i_ite(i_eq(r["swing"], 0), 0, 1)),
                }
                if upd:
                    if calls and calls[0]["fn"] == "build_command":
                        checks.append(("update_only_sends_no_ir_code", True))
                    a = dict(session=run.session, ts=A.le_int(cmdf, 24, 4) if len(cmdf.items) > 28 else 0, dev_id=run.dev["dev"],
                             key=run.dev["key"], state=want["state"], mode=want["mode"], target=want["target"], fan=want["fan"],
                             swing=want["swing"])
                    body_ = SF.body_of(O, "breeze_update", SO.fields(O, "breeze_update", a))
                    checks.append(("status_frame_carries_merged_values",
                                   b_not(b_and(SymSeq("bytes", cmdf.items[:-4]).eq(body_), O.sig_ok(cmdf)))))
                else:
                    if not calls or calls[0]["fn"] != "build_command":
                        checks.append(("command_built_once", True))
                    else:
                        c0 = calls.pop(0)
                        conds = [
                            i_eq(enum_code(dev, c0["state"], STATE_CODE), want["state"]),
                            i_eq(enum_code(dev, c0["mode"], MODE_CODE), want["mode"]),
                            i_eq(c0["target_temp"], want["target"]) if not isinstance(c0["target_temp"], SymChoice) else False,
                            i_eq(enum_code(dev, c0["fan_level"], FAN_CODE), want["fan"]),
                            i_eq(enum_code(dev, c0["swing"], SWING_CODE), want["swing"]),
                            i_eq(enum_code(dev, c0["current_state"], STATE_CODE), dstate) if c0["current_state"] is not None else False,
                        ]
                        checks.append(("command_built_from_requested_else_reported_values", b_not(b_and(*conds))))
                        checks.append(("ir_frame_carries_that_command", b_not(frame_carries(cmdf, c0["text"]))))
            if swing_cmd and not (fault == "command" and actionable):
                sf = frames[-1]
                if not calls or calls[-1]["fn"] != "build_swing_command":
                    checks.append(("separate_swing_command_built", True))
                else:
                    cs = calls.pop()
                    checks.append(("swing_command_for_requested_swing",
                                   b_not(i_eq(enum_code(dev, cs["swing"], SWING_CODE), enum_code(dev, req["swing"], SWING_CODE)))))
                    checks.append(("swing_frame_carries_that_command", b_not(frame_carries(sf, cs["text"]))))
            elif any(c["fn"] == "build_swing_command" for c in calls):
                checks.append(("no_separate_swing_command_unless_requested", True))
        def mkviol(lbl, m):
            rp = A.replay_spec(run, m, "C16", extra={"case": case})
            if case.get("twice"):
                f0 = A.replay_spec(run.extra["first"], m, None)
                rp["before_ops"] = [{k: f0[k] for k in ("op", "args", "replies", "clock", "remote") if k in f0}]
            return {"what": "C16 %s" % lbl, "case": case, "replay": rp}

        H.discharge(path, eng, res, checks, mkviol)
        mw = path.witness()
        if case.get("twice"):
            continue
        res["witnesses"].append({"replay": A.replay_spec(run, mw, None),
                                 "expected": {"nframes": len(frames), "exception": type(run.result).__name__ if run.outcome == "exc" else None,
                                              "frames": [C.ev_seq(mw, f).hex() for f in frames],
                                              "blobframes": [i for i, f in enumerate(frames) if f.has_blob()]}})
        if len(res["samples"]) < 1:
            res["samples"].append({"case": case, "outcome": run.outcome, "frames": len(frames),
                                   "recorded_calls": [c["fn"] for c in remote.calls]})
    if n == 0:
        raise E.HarnessError("no feasible path")


def frame_carries(frame, text):
    """frame = ... 37 01 | LE16(4 + len(text)) | 00 00 00 00 | text | signature"""
    items = frame.items
    t = text.items
    k = 87
    if len(items) != k + len(t) + 4:
        return False
    conds = [SymSeq("bytes", items[79:81]).eq(O.lit("3701")), SymSeq("bytes", items[83:87]).eq(O.lit("00000000"))]
    for a, b in zip(items[k:k + len(t)], t):
        if isinstance(a, Blob) or isinstance(b, Blob):
            if not (isinstance(a, Blob) and isinstance(b, Blob) and a.bid == b.bid and a.view == "raw"):
                return False
        else:
            conds.append(sym_eq(a if not isinstance(a, int) else a, b))
    n = SymSeq("bytes", list(t)).unit_len()
    conds.append(SymSeq("bytes", items[81:83]).eq(O.le16(n + 4)))
    conds.append(O.sig_ok(frame))
    return b_and(*conds)


def _cmp(exp, o):
    gotf = o.get("frames") or []
    if len(gotf) != exp["nframes"]:
        return False
    if (exp["exception"] is None) != ("exception" not in o):
        return False
    bf = set(exp["blobframes"])
    return all((g[:-8] == e[:-8]) if i in bf else (g == e) for i, (g, e) in enumerate(zip(gotf, exp["frames"])))


def main(tier):
    t0 = time.time()
    subsets = [[(k >> 4) & 1, (k >> 3) & 1, (k >> 2) & 1, (k >> 1) & 1, k & 1] for k in range(32)]
    if tier == "quick":
        pick = [0, 31, 16, 8, 4, 2, 1, 30, 15, 21, 10, 3]
        subsets = [subsets[k] for k in pick]
    cases = []
    for g in subsets:
        for sep in (False, True):
            for upd in (False, True):
                cases.append({"given": g, "separated": sep, "update": upd, "fault": None})
    for g in ([1, 0, 0, 0, 0], [0, 0, 1, 0, 0]):
        for upd in (False, True):
            cases.append({"given": g, "separated": False, "update": upd, "fault": None, "twice": True})
    fault_sets = [[1, 1, 1, 1, 1], [0, 0, 0, 0, 1], [1, 0, 0, 0, 0]] if tier == "quick" else subsets
    for g in fault_sets:
        for sep in (False, True):
            for upd in (False, True):
                for fl in ("login", "state", "command", "swing"):
                    cases.append({"given": g, "separated": sep, "update": upd, "fault": fl})
    results = H.run_cases("harness.C16", "run_case", cases, timeout_ms=120000 if tier == "quick" else 600000)
    nw = H.validate_call_witnesses(results, cmp=_cmp)
    H.finish(PID, tier, "model_checking", results, t0,
             rule="per (subset of given settings, separate-swing remote or not, update-only flag, faulty step): current-state reply, requested "
                  "values, sessions, clock and IR code texts (symbolic length) are solver variables; the remote is a recording stub "
                  "(C15 decides the real build_command)",
             bounds={"given subsets": len(subsets), "state reply": "92 free bytes + tail, enumerants inside the device's domain",
                     "target": "1..60 when given (0 means not given, by the API's own convention)", "IR text": "Para and HexCode of 0..1000 bytes each"},
             assumptions=["stream contract of DESIGN 3.3", "build_command / build_swing_command replaced by recording stubs that return a real SwitcherBreezeCommand"],
             technique="SHADOW symbolic execution of the real Python source + z3 QF_UFBV (uninterpreted CRC fold over symbolic-length text)",
             witness_checked=nw, exhaustive_splits=(tier == "thorough"),
             extra={"states": sum(r["stats"]["feasible_paths"] for r in results),
                    "transitions": sum(r["stats"]["branch_decisions"] for r in results)})
