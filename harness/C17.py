from harness.lifecycle import main_c17 as main  # noqa: F401
