from harness.lifecycle import main_c18 as main  # noqa: F401
