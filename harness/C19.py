"""C19 - device types, categories, classes and ports are mutually consistent."""
import time

import z3

from harness import common as H, apiops as A
from shadow import loader, engine as E, concretize as C, timeenv
from shadow.values import SymChoice, SymInt, SymSeq, b_and, b_not, b_or, bterm, i_eq, sym_eq, b_iff
from shadow.dispatch import SYM

PID = "C19"
# the statement's table (independent of the enum): model code -> (protocol type, category)
TYPES = {
    "MINI": ("030f", 1, "WATER_HEATER"), "POWER_PLUG": ("01a8", 1, "POWER_PLUG"), "TOUCH": ("030b", 1, "WATER_HEATER"),
    "V2_ESP": ("01a7", 1, "WATER_HEATER"), "V2_QCA": ("01a1", 1, "WATER_HEATER"), "V4": ("0317", 1, "WATER_HEATER"),
    "BREEZE": ("0e01", 2, "THERMOSTAT"), "RUNNER": ("0c01", 2, "SHUTTER"), "RUNNER_MINI": ("0c02", 2, "SHUTTER"),
}
CLASSES = {"SwitcherPowerPlug": "POWER_PLUG", "SwitcherWaterHeater": "WATER_HEATER", "SwitcherThermostat": "THERMOSTAT",
           "SwitcherShutter": "SHUTTER"}
PORTS = {1: (20002, 9957), 2: (20003, 10000)}


def ctor_args(dev, cls_name, dt):
    common = [dt, dev.DeviceState.ON, "aabbcc", "18", "192.168.1.33", "12:A1:A2:1A:BC:1A", "name"]
    if cls_name == "SwitcherPowerPlug":
        return common + [100, 0.5]
    if cls_name == "SwitcherWaterHeater":
        return common + [100, 0.5, "00:00:00", "01:00:00"]
    if cls_name == "SwitcherThermostat":
        return common + [dev.ThermostatMode.COOL, 22.5, 24, dev.ThermostatFanLevel.LOW, dev.ThermostatSwing.OFF, "ELEC7022"]
    return common + [50, dev.ShutterDirection.SHUTTER_STOP]


def run_case(case, eng, res):
    dev = loader.load("device")
    api = loader.load("api")
    bridge = loader.load("bridge")
    members = list(dev.DeviceType)
    names = [m.name for m in members]

    def body(path):
        timeenv.setup(path)
        idx = A.fresh_int(path, "dtype", 0, len(members) - 1)
        dt = SymChoice.mk(idx, members)
        if case["kind"] == "ctor":
            cls = getattr(dev, case["cls"])
            if case.get("before"):
                # an earlier construction (same device id, any type, accepted or refused) in the same process
                idx0 = A.fresh_int(path, "dtype0", 0, len(members) - 1)
                path.notes["idx0"] = idx0
                try:
                    getattr(dev, case["before"])(*ctor_args(dev, case["before"], SymChoice.mk(idx0, members)))
                except Exception:  # noqa: BLE001
                    pass
            try:
                obj = cls(*ctor_args(dev, case["cls"], dt))
                return ("ok", obj, idx, dt)
            except Exception as e:  # noqa: BLE001
                return ("exc", e, idx, dt)
        return ("tables", None, idx, dt)

    n = 0
    for path, out, exc in eng.explore(body):
        if exc is not None:
            raise exc
        n += 1
        path.twin("C19")
        tag, obj, idx, dt = out
        checks = []

        def before_of(m, path=path):
            if not case.get("before"):
                return {}
            return {"before": {"cls": case["before"], "dtype": names[C.ev_int(m, path.notes["idx0"])]}}

        # which member names belong to this class's category according to the statement
        if case["kind"] == "ctor":
            want = CLASSES[case["cls"]]
            match = b_or(*[i_eq(idx, k) for k, nm in enumerate(names) if TYPES.get(nm, (None, None, None))[2] == want])
            if tag == "ok":
                checks.append(("class_refuses_foreign_types", b_not(match)))
                checks.append(("object_keeps_its_type", b_not(sym_eq(obj.device_type, dt))))
            else:
                checks.append(("class_accepts_own_types", match))
                if not isinstance(obj, ValueError):
                    checks.append(("refusal_is_ValueError", True))
        else:
            # every member is one of the statement's nine, with its code / protocol type / category
            if sorted(names) != sorted(TYPES):
                checks.append(("nine_device_types", True))
            for k, nm in enumerate(names):
                code, proto, cat = TYPES.get(nm, ("????", 0, "?"))
                here = i_eq(idx, k)
                hexrep = dt.hex_rep
                checks.append(("model_code", b_and(here, b_not(sym_eq(hexrep, code)))))
                checks.append(("protocol_type", b_and(here, b_not(sym_eq(dt.protocol_type, proto)))))
                catobj = dt.category
                checks.append(("category", b_and(here, b_not(sym_eq(catobj, getattr(dev.DeviceCategory, cat, None))))))
            # unique model codes: two symbolic members with equal code must be the same member
            idx2 = A.fresh_int(path, "dtype2", 0, len(members) - 1)
            dt2 = SymChoice.mk(idx2, members)
            checks.append(("unique_model_codes", b_and(sym_eq(dt.hex_rep, dt2.hex_rep), b_not(i_eq(idx, idx2)))))
            # ports: category -> port tables agree with the protocol type's ports
            tcp = api.SWITCHER_DEVICE_TO_TCP_PORT
            udp = bridge.SWITCHER_DEVICE_TO_UDP_PORT
            cats = list(dev.DeviceCategory)
            if set(tcp) != set(cats) or set(udp) != set(cats) or len(cats) != 4:
                checks.append(("port_tables_cover_exactly_the_four_categories", True))
            for k, m in enumerate(members):
                proto = TYPES.get(m.name, (None, 0, None))[1]
                eu, et = PORTS.get(proto, (None, None))
                here = i_eq(idx, k)
                try:
                    checks.append(("udp_port", b_and(here, udp[m.category] != eu)))
                    checks.append(("tcp_port", b_and(here, tcp[m.category] != et)))
                except KeyError:
                    checks.append(("port_lookup", here))
            if (bridge.SWITCHER_UDP_PORT_TYPE1, bridge.SWITCHER_UDP_PORT_TYPE2, api.SWITCHER_TCP_PORT_TYPE1,
                    api.SWITCHER_TCP_PORT_TYPE2) != (20002, 20003, 9957, 10000):
                checks.append(("port_constants", True))
        for lbl, bad in checks:
            res["checks"][lbl] = res["checks"].get(lbl, 0) + 1
            if bad is False:
                eng.stats.checks += 1
                eng.stats.checks_discharged += 1
                continue
            m = path.refute(bterm(bad) if not isinstance(bad, bool) else z3.BoolVal(bad))
            if m is not None:
                k = C.ev_int(m, idx)
                res["violations"].append({"what": "C19 %s (%s, %s)" % (lbl, case.get("cls", "tables"), names[k]), "case": case,
                                          "replay": dict({"kind": "c19", "cls": case.get("cls"), "dtype": names[k], "oracle": "C19"},
                                                         **before_of(m))})
        mw = path.witness()
        k = C.ev_int(mw, idx)
        if case["kind"] == "ctor":
            res["witnesses"].append({"replay": dict({"kind": "c19", "cls": case["cls"], "dtype": names[k], "oracle": "C19"}, **before_of(mw)),
                                     "expected": {"constructed": tag == "ok"}})
        if len(res["samples"]) < 2:
            res["samples"].append({"case": case, "witness_type": names[k], "outcome": tag})
    if n == 0:
        raise E.HarnessError("no path")


def main(tier):
    t0 = time.time()
    cases = [{"kind": "ctor", "cls": c} for c in CLASSES] + [{"kind": "tables"}]
    cases += [{"kind": "ctor", "cls": c, "before": b} for c in CLASSES for b in CLASSES]
    results = H.run_cases("harness.C19", "run_case", cases)
    nw = H.validate_call_witnesses(results, cmp=lambda exp, o: o.get("constructed") == exp["constructed"])
    H.finish(PID, tier, "model_checking", results, t0,
             rule="device type is a symbolic choice over the enum's members; one run per device class plus one run over the tables; "
                  "the finite space (9 types x 4 classes, both port tables) is covered completely by the solver queries",
             bounds={"space": "finite: all DeviceType members x 4 classes x 2 port tables"},
             assumptions=["the statement's own table of the nine types (code, protocol type, category) and ports is the oracle"],
             technique="SHADOW symbolic execution of the real Python source + z3 QF_BV (finite domain, exhaustive)",
             witness_checked=nw, exhaustive_splits=True,
             extra={"states": sum(r["stats"]["feasible_paths"] for r in results),
                    "transitions": sum(r["stats"]["branch_decisions"] for r in results), "exhaustive": True})
