"""Symbolic drivers for the TCP API operations (shared by C01, C02, C03, C09, C16, C18)."""
from __future__ import annotations

import z3

from shadow import loader, engine as E, aio, timeenv, stubs
from shadow.values import (SymSeq, SymInt, SymBool, U8, Hx, Blob, SymSet, SymChoice, b_and, b_or, b_not, bterm, i_eq,
                           unit_term, mk_bool)
from shadow.utf8 import utf8_valid
from shadow import concretize as C
from harness.symops import O


# ------------------------------------------------------------------------------- symbols
def fresh_int(path, name, lo, hi):
    w = 1
    while not (-(1 << (w - 1)) <= lo and hi <= (1 << (w - 1)) - 1):
        w += 1
    v = path.fresh_bv(name, w)
    path.constrain(z3.And(v >= lo, v <= hi))
    return SymInt(v, lo, hi)


def fresh_bytes(path, name, n, ascii=False):
    return SymSeq("bytes", [U8(path.fresh_bv("%s%d" % (name, i), 8), ascii) for i in range(n)])


def fresh_blob(path, name, lo, hi):
    """ascii text of symbolic length lo..hi"""
    n = fresh_int(path, name + "_len", lo, hi)
    return Blob(name, "raw", n), n


def sym_device(path, tag=""):
    dev = fresh_bytes(path, tag + "dev", 3)
    key = fresh_bytes(path, tag + "key", 1)
    dev_id = stubs.s_hexlify(dev).m_decode()
    dev_key = stubs.s_hexlify(key).m_decode()
    return dict(dev=dev, key=key, dev_id=dev_id, dev_key=dev_key)


def login_reply(path, tag="login", fixed=None):
    """12 free bytes (session = bytes 8..11) + tail of symbolic length 0..1012; fixed=n: exactly n free bytes, no tail"""
    if fixed is not None:
        head = fresh_bytes(path, tag + "_b", fixed)
        return head, SymSeq("bytes", head.items[8:12])
    head = fresh_bytes(path, tag + "_b", 12)
    tail, n = fresh_blob(path, tag + "_tail", 0, 1012)
    return SymSeq("bytes", head.items + [tail]), SymSeq("bytes", head.items[8:12])


def generic_reply(path, tag="reply", lo=1, hi=1024):
    blob, n = fresh_blob(path, tag, lo, hi)
    return SymSeq("bytes", [blob])


def le_int(frame, off, n):
    """unsigned little-endian integer held in frame bytes off..off+n-1"""
    units = frame.items[off:off + n]
    return stubs.int_from_units(list(units), "little")


# ------------------------------------------------------------------------------- op catalog

T1_OPS = ["get_state", "control_device", "set_auto_shutdown", "set_device_name", "get_schedules", "delete_schedule",
          "create_schedule"]
T2_OPS = ["stop", "set_position", "get_shutter_state", "get_breeze_state", "control_breeze_device"]
API_OF = {op: 1 for op in T1_OPS}
API_OF.update({op: 2 for op in T2_OPS})


def op_cases(op, tier="quick"):
    """finite case split of one operation"""
    if op == "control_device":
        return [{"op": op, "command": c} for c in ("ON", "OFF")]
    if op == "set_device_name":
        top = 40 if tier == "quick" else 96
        return [{"op": op, "B": b} for b in range(0, top + 1)]
    if op == "control_breeze_device":
        out = []
        for sep in (False, True):
            for upd in (False, True):
                for req in ("all", "swing_only", "state_only", "none"):
                    out.append({"op": op, "separated": sep, "update": upd, "req": req})
        return out
    return [{"op": op}]


class OpRun:
    """everything one symbolic run of one operation produced"""

    def __init__(self):
        self.op = None
        self.api_type = None
        self.dev = None
        self.a = {}  # abstract argument record (spec.opspec)
        self.frames = []
        self.outcome = None  # 'ok' | 'exc'
        self.result = None
        self.session = None
        self.replies = []
        self.json_args = None  # callable(model) -> list of JSON args
        self.clock_reads = []
        self.extra = {}


def build_args(path, mod, case, run):
    """returns (callable(api) -> coroutine)"""
    op = case["op"]
    a = run.a
    if op in ("get_state", "get_schedules", "stop", "get_shutter_state", "get_breeze_state"):
        run.json_args = lambda m: []
        return lambda api: getattr(api, op)()
    if op == "control_device":
        cmd = getattr(mod.Command, case["command"])
        minutes = fresh_int(path, "minutes", -(1 << 40), 1 << 40) if not case.get("simple") else fresh_int(path, "minutes", 0, 1 << 20)
        a["on"] = 1 if case["command"] == "ON" else 0
        a["minutes"] = minutes
        run.json_args = lambda m: [{"enum": "Command." + case["command"]}, C.ev_int(m, minutes)]
        return lambda api: api.control_device(cmd, minutes)
    if op == "set_auto_shutdown":
        secs = fresh_int(path, "td_secs", -(1 << 31), (1 << 31) - 1) if not case.get("simple") else fresh_int(path, "td_secs", 3600, 86340)
        a["secs"] = secs
        td = timeenv.STimedelta(seconds=secs)
        run.json_args = lambda m: [{"timedelta_s": C.ev_int(m, secs)}]
        return lambda api: api.set_auto_shutdown(td)
    if op == "set_device_name":
        B = case["B"]
        nb = fresh_bytes(path, "name", B, ascii=bool(case.get("simple")))
        if case.get("simple"):
            for u in nb.items:
                path.constrain(z3.ULT(u.t, 128))
        path.assume(bterm(utf8_valid(nb.items)))
        name = SymSeq("str", list(nb.items))
        a["name_bytes"] = nb
        a["name_chars"] = name.length()
        run.json_args = lambda m: [C.ev_seq(m, name)]
        return lambda api: api.set_device_name(name)
    if op == "delete_schedule":
        v = path.fresh_bv("slot", 8)
        path.constrain(z3.And(z3.UGE(v, 48), z3.ULE(v, 55)))
        sid = SymSeq("str", [U8(v, True)])
        a["slot"] = SymInt.from_unsigned(v) - 48
        run.json_args = lambda m: [C.ev_seq(m, sid)]
        return lambda api: api.delete_schedule(sid)
    if op == "set_position":
        pos = fresh_int(path, "position", -16, 4100) if not case.get("simple") else fresh_int(path, "position", 0, 100)
        a["position"] = pos
        run.json_args = lambda m: [C.ev_int(m, pos)]
        return lambda api: api.set_position(pos)
    if op == "create_schedule":
        from harness import timeargs

        return timeargs.build_create_schedule(path, mod, case, run)
    if op == "control_breeze_device":
        from harness import breezeargs

        return breezeargs.build_control_breeze(path, mod, case, run)
    raise KeyError(op)


_OWNER = [0]


def prepare_op(path, case, zone_rows=None, reply_plan=None, dev=None, api=None, tag=""):
    """set up one symbolic run of one API operation on a fresh (or given) connected api object;
    returns the OpRun with run.coro() ready to be driven"""
    mod = loader.load("api")
    op = case["op"]
    run = OpRun()
    run.op, run.api_type = op, API_OF[op]
    if "timeenv" not in path.notes:
        timeenv.setup(path, zone_rows)
    te = path.notes["timeenv"]
    w = aio.world()
    if dev is None:
        dev = sym_device(path, tag)
    run.dev = dev
    _OWNER[0] += 1
    run.owner = _OWNER[0]
    if api is None:
        cls = mod.SwitcherType1Api if run.api_type == 1 else mod.SwitcherType2Api
        api = cls("192.168.1.10", dev["dev_id"], dev["dev_key"])
        yp, w.yield_points = w.yield_points, False
        aio.run(api.connect())
        w.yield_points = yp
        api._verif_conn = w.conns[-1]
    run.api = api
    conn = api._verif_conn
    run.conn = conn
    run.nframes0 = len(conn.frames)
    # replies
    lr, session = login_reply(path, tag + "login", fixed=case.get("lr_fixed"))
    run.session = session
    run.replies = [lr]
    plan = reply_plan or default_reply_plan
    plan(path, case, run, tag)
    base_reads = conn.nreads
    conn.reply_fn = lambda c, k: run.replies[k - base_reads] if 0 <= k - base_reads < len(run.replies) else _noreply()
    call = build_args(path, mod, case, run)
    run.a.update(session=session, dev_id=dev["dev"], key=dev["key"])
    run.coro = lambda: call(api)
    run.extra["timeenv"] = te
    return run


def finish_op(run, outcome, result):
    te = run.extra["timeenv"]
    run.outcome, run.result = outcome, result
    conn = run.conn
    run.frames = [SymSeq.of(f) if not isinstance(f, SymSeq) else f for f in conn.frames[run.nframes0:]]
    idxs = [k for k, o in enumerate(te.read_owner) if o == run.owner]
    run.clock_reads = [te.reads[k] for k in idxs]
    run.extra["read_idx"] = idxs
    return run


def run_op(path, case, zone_rows=None, reply_plan=None, dev=None, api=None, tag=""):
    """one symbolic run of one API operation, driven to completion"""
    run = prepare_op(path, case, zone_rows, reply_plan, dev, api, tag)
    te = run.extra["timeenv"]
    prev, te.owner = te.owner, run.owner
    try:
        try:
            result = aio.run(run.coro())
            outcome = "ok"
        except Exception as e:  # noqa: BLE001
            result, outcome = e, "exc"
    finally:
        te.owner = prev
    return finish_op(run, outcome, result)


def _noreply():
    raise E.Unsupported("the operation read more replies than the harness scripted")


def default_reply_plan(path, case, run, tag):
    op = case["op"]
    if op == "control_breeze_device":
        from harness import breezeargs

        return breezeargs.reply_plan(path, case, run, tag)
    if case.get("simple") and op in ("get_state", "get_breeze_state", "get_shutter_state"):
        run.replies.append(bytes(107))
    elif op == "get_state":
        run.replies.append(SymSeq("bytes", fresh_bytes(path, tag + "st", 101).items + [fresh_blob(path, tag + "st_tail", 0, 923)[0]]))
    elif op in ("get_breeze_state",):
        run.replies.append(SymSeq("bytes", fresh_bytes(path, tag + "st", 92).items + [fresh_blob(path, tag + "st_tail", 0, 932)[0]]))
    elif op == "get_shutter_state":
        run.replies.append(SymSeq("bytes", fresh_bytes(path, tag + "st", 80).items + [fresh_blob(path, tag + "st_tail", 0, 944)[0]]))
    elif op == "get_schedules":
        # header 45 bytes, no records, 4 trailer bytes
        run.replies.append(SymSeq("bytes", fresh_bytes(path, tag + "sch", 49).items))
    else:
        run.replies.append(generic_reply(path, tag + "reply"))


# ------------------------------------------------------------------------------- replay spec
def replay_spec(run, m, oracle, zone=None, extra=None):
    te = run.extra.get("timeenv")
    te_reads = []
    for k, t in zip(run.extra.get("read_idx", []), run.clock_reads):
        up = te.ups.get(k) if te is not None else None
        te_reads.append(C.ev_int(m, t) + (0.75 if (up is not None and C.ev_bool(m, up)) else 0.25))
    spec = {
        "kind": "api_op",
        "api": run.api_type,
        "dev_id": C.ev_seq(m, run.dev["dev_id"]),
        "key": C.ev_seq(m, run.dev["dev_key"]),
        "op": run.op,
        "args": run.json_args(m) if run.json_args else [],
        "replies": [(C.ev_seq(m, r) if isinstance(r, SymSeq) else bytes(r)).hex() for r in run.replies],
        "clock": te_reads or None,
        "zone": zone,
        "oracle": oracle,
    }
    if run.op == "control_breeze_device":
        from harness import breezeargs

        spec["remote"] = breezeargs.remote_json(run, m)
    if extra:
        spec.update(extra)
    return spec
