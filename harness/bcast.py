"""C05 / C06 - status broadcasts: exact decoding of well-formed ones, quiet rejection of the rest."""
import time

import z3

from harness import common as H, apiops as A
from harness.symops import O
from shadow import loader, engine as E, concretize as C, timeenv, stubs, floats as FL
from shadow.values import (SymSeq, SymInt, SymBool, Hx, U8, Blob, Opaque, b_and, b_not, b_or, b_implies, b_iff, bterm,
                           i_eq, i_ite, sym_eq, unit_term)
from spec import broadcast as SB


def iso_units(secs):
    """HH:MM:SS of 0 <= secs < 86400 (same divmod chain as the definition of the decomposition)"""
    if isinstance(secs, int):
        return "%02d:%02d:%02d" % (secs // 3600, (secs // 60) % 60, secs % 60)
    mins, s = divmod(secs, 60)
    h, m = divmod(mins, 60) if isinstance(mins, SymInt) else (mins // 60, mins % 60)
    return timeenv.STime(h, m, s).isoformat()


def mac_text(mac):
    items = []
    for k, u in enumerate(mac.items):
        if k:
            items.append(58)
        if isinstance(u, int):
            items.extend(b"%02X" % u)
        else:
            t = unit_term(u)
            items.append(Hx(src=t, half=1, upper=True))
            items.append(Hx(src=t, half=0, upper=True))
    return SymSeq("str", items)


def hex_text(bs):
    return stubs.s_hexlify(bs).m_decode()


def expected_fields(dev, r, family):
    """(field -> expected value or (on_value, off_value)) rendered symbolically from the abstract decode"""
    exp = {
        "device_id": hex_text(r["id"]),
        "device_key": hex_text(r["key"]),
        "ip_address": Opaque("Ipv4", r["ip"]),
        "mac_address": mac_text(r["mac"]),
        "name": SymSeq("str", list(r["name_field"].items), stripnul=True),
    }
    if family == "type1":
        on = r["on"]
        exp["power_consumption"] = i_ite(on, r["watts"], 0)
        exp["remaining_time"] = ("onoff", on, ("iso", r["remaining_s"]), "00:00:00")
        exp["auto_shutdown"] = ("iso", r["auto_s"])
        exp["electric_current"] = ("onoff", on, ("amps", r["watts"]), 0.0)
        exp["device_state"] = ("enum2", on, dev.DeviceState.ON, dev.DeviceState.OFF)
    if family == "runner":
        exp["position"] = r["position"]
        exp["direction"] = ("enumtab", r["direction"], {k: getattr(dev.ShutterDirection, v) for k, v in SB.DIRECTIONS.items()})
    if family == "breeze":
        on = r["on"]
        exp["device_state"] = ("enum2", on, dev.DeviceState.ON, dev.DeviceState.OFF)
        exp["mode"] = ("enumtab", r["mode"], {k: getattr(dev.ThermostatMode, v) for k, v in SB.MODES.items()})
        exp["fan_level"] = ("enumtab", r["fan"], {k: getattr(dev.ThermostatFanLevel, v) for k, v in SB.FANS.items()})
        exp["swing"] = ("enum2", i_eq(r["swing"], 1), dev.ThermostatSwing.ON, dev.ThermostatSwing.OFF)
        exp["temperature"] = FL.FQuot(r["temp10"], 10)
        exp["target_temperature"] = r["target"]
        exp["remote_id"] = SymSeq("str", list(r["remote"].items))
    return exp


def iso_ok(actual, secs):
    """actual is the text HH:MM:SS of `secs` seconds (0 <= secs < 86400): checked by reading the digits back
    (3600*HH + 60*MM + SS == secs, MM < 60, SS < 60), independent of how the code split the number"""
    if isinstance(actual, str):
        actual = SymSeq.of(actual)
    if not isinstance(actual, SymSeq) or actual.kind != "str" or actual.has_blob() or actual.stripnul or len(actual.items) != 8:
        return False
    it = actual.items
    conds = [sym_eq(it[2] if isinstance(it[2], int) else SymInt.from_unsigned(unit_term(it[2])), 58),
             sym_eq(it[5] if isinstance(it[5], int) else SymInt.from_unsigned(unit_term(it[5])), 58)]
    digs = []
    for k in (0, 1, 3, 4, 6, 7):
        u = it[k]
        d = (u - 48) if isinstance(u, int) else (SymInt.from_unsigned(unit_term(u)) - 48)
        conds.append(b_and(d >= 0, d <= 9))
        digs.append(d)
    hh, mm, ss = digs[0] * 10 + digs[1], digs[2] * 10 + digs[3], digs[4] * 10 + digs[5]
    conds += [mm <= 59, ss <= 59, i_eq(hh * 3600 + mm * 60 + ss, secs)]
    return b_and(*conds)


def amps_ok(actual, w):
    """actual is watts/220 to one decimal: k/10 with |22k - w| <= 11 (either neighbour at an exact tie)"""
    if isinstance(actual, Opaque) and actual.okind == "Amps":
        return i_eq(actual.args[0], w)
    if isinstance(actual, FL.FQuot) and actual.d == 10:
        d = actual.n * 22 - w
        return b_and(d <= 11, d >= -11)
    if isinstance(actual, (int, float)) and not isinstance(actual, bool):
        k = round(actual * 10)
        if abs(k / 10 - actual) > 1e-9:
            return False
        d = k * 22 - w
        return b_and(d <= 11, d >= -11)
    return False


def field_ok(actual, e):
    if isinstance(e, tuple):
        if e[0] == "amps":
            return amps_ok(actual, e[1])
        if e[0] == "iso":
            return iso_ok(actual, e[1])
        if e[0] == "onoff":
            _, on, von, voff = e
            return b_and(b_implies(on, field_ok(actual, von)), b_implies(b_not(on), field_ok(actual, voff)))
        if e[0] == "enum2":
            _, c, a, b = e
            return b_and(b_implies(c, actual is a), b_implies(b_not(c), actual is b))
        if e[0] == "enumtab":
            _, v, tab = e
            return b_or(*[b_and(i_eq(v, k), actual is m) for k, m in tab.items()])
    if isinstance(e, FL.FQuot):
        if isinstance(actual, FL.FQuot):
            return actual.__eq__(e)
        if isinstance(actual, float) and isinstance(e.n, int):
            return actual == e.n / e.d
        return False
    return sym_eq(actual, e)


def sym_datagram(path, n):
    return A.fresh_bytes(path, "dg", n)


def parse_run(path, dgram):
    bridge = loader.load("bridge")
    got = []
    timeenv.setup(path)
    try:
        bridge._parse_device_from_datagram(got.append, dgram)
        return ("ok", got, None)
    except Exception as e:  # noqa: BLE001
        return ("exc", got, e)


def earlier_datagram(path, family, model, variant):
    from spec.ops_concrete import O as OC

    n = SB.FAMILY_LEN[family]
    b = bytearray(n)
    b[0:2] = b"\xfe\xf0"
    b[74:76] = model.to_bytes(2, "big")
    b[42:49] = b"Earlier"
    on = 1 if variant == "on" else 0
    if family == "type1":
        b[133] = on
        b[135:137] = (1234).to_bytes(2, "little")
        b[147:151] = (601).to_bytes(4, "little")
        b[155:159] = (7261).to_bytes(4, "little")
    elif family == "breeze":
        b[135:137] = (235).to_bytes(2, "little")
        b[137], b[138], b[139], b[140] = on, 4, 24, 0x11
        b[143:151] = b"ELEC7022"
    else:
        b[135], b[137:139] = 50, (b"\x01\x00" if on else b"\x00\x00")
    if not SB.wellformed(OC, bytes(b), family, SB.decode(OC, bytes(b), family)):
        raise E.HarnessError("the fixed earlier datagram is not well-formed")
    units = list(b)
    free = list(range(18, 21)) + [40] + list(range(76, 86)) + ([86] if family != "type1" else [])
    fresh = A.fresh_bytes(path, "dg0_", len(free))
    for u, i in zip(fresh.items, free):
        units[i] = u
    return SymSeq("bytes", units)


def dgram_replay(m, dgram, oracle, family=None):
    return {"kind": "datagram", "data": C.ev_seq(m, dgram).hex(), "oracle": oracle, "family": family}


# =============================================================================== C05
def run_c05(case, eng, res):
    dev = loader.load("device")
    family = case["family"]
    n = SB.FAMILY_LEN[family]
    CLS = {"WATER_HEATER": "SwitcherWaterHeater", "POWER_PLUG": "SwitcherPowerPlug", "THERMOSTAT": "SwitcherThermostat",
           "SHUTTER": "SwitcherShutter"}

    def body(path):
        path.notes["before"] = None
        if case.get("before"):
            # an earlier broadcast of the same model in the same process, decoded and delivered before the one under test:
            # identity bytes (device id, key, IP, MAC) are free - they may or may not coincide with the later one's - the rest
            # is a fixed well-formed payload with another name and state (fully free earlier datagrams square the path count)
            d0 = earlier_datagram(path, family, case["model"], case["before"])
            parse_run(path, d0)
            path.notes["before"] = d0
        d = sym_datagram(path, n)
        r = SB.decode(O, d, family)
        path.assume(bterm(SB.wellformed(O, d, family, r)))
        if "model" in case:
            path.assume(bterm(i_eq(r["model"], case["model"])))
        out = parse_run(path, d)
        return out + (d, r)

    def rp(m, path, oracle):
        spec = dgram_replay(m, path.current_d, oracle, family)
        if path.notes.get("before") is not None:
            spec["before"] = [C.ev_seq(m, path.notes["before"]).hex()]
        return spec

    npaths = 0
    for path, out, exc in eng.explore(body):
        if exc is not None:
            raise exc
        npaths += 1
        path.twin("C05")
        tag, got, e, d, r = out
        path.current_d = d
        checks = []
        if tag == "exc":
            checks.append(("wellformed_broadcast_decodes_without_error", True))
        elif len(got) != 1:
            checks.append(("exactly_one_device", True))
        else:
            obj = got[0]
            # class and type against the statement's table
            ok_type = []
            for code, (name, fam, cat) in SB.MODELS.items():
                if fam != family:
                    continue
                ok_type.append(b_and(i_eq(r["model"], code), type(obj).__name__ == CLS[cat],
                                     obj.device_type is getattr(dev.DeviceType, name)))
            checks.append(("class_and_type", b_not(b_or(*ok_type))))
            exp = expected_fields(dev, r, family)
            if type(obj).__name__ == "SwitcherPowerPlug":
                exp.pop("remaining_time", None)
                exp.pop("auto_shutdown", None)
            for f, ev in exp.items():
                if not hasattr(obj, f):
                    checks.append(("field_" + f, True))
                    continue
                checks.append(("field_" + f, b_not(field_ok(getattr(obj, f), ev))))
        for lbl, bad in checks:
            res["checks"][lbl] = res["checks"].get(lbl, 0) + 1
            if bad is False:
                eng.stats.checks += 1
                eng.stats.checks_discharged += 1
                continue
            m = path.refute(bterm(bad) if not isinstance(bad, bool) else z3.BoolVal(bad))
            if m is not None:
                res["violations"].append({"what": "C05 %s (%s)" % (lbl, family), "case": case,
                                          "replay": rp(m, path, "C05")})
        mw = path.witness()
        res["witnesses"].append({"replay": rp(mw, path, None),
                                 "expected": {"devices": [C.conc(mw, g) for g in got], "exception": type(e).__name__ if e else None}})
        if len(res["samples"]) < 2:
            res["samples"].append({"case": case, "witness_datagram": C.ev_seq(mw, d).hex(),
                                   "decoded": [C.conc(mw, g) for g in got]})
    if npaths == 0:
        raise E.HarnessError("no feasible path")


def main_c05(tier):
    t0 = time.time()
    FL.lemma_amps(65535)
    cases = []
    for code, (name, fam, cat) in SB.MODELS.items():
        cases.append({"family": fam, "model": code, "name": name})
    hist = [c for c in cases if tier == "thorough" or c["name"] in ("V4", "POWER_PLUG", "BREEZE", "RUNNER")]
    cases += [dict(c, before=v) for c in hist for v in ("on", "off")]
    results = H.run_cases("harness.bcast", "run_c05", cases, timeout_ms=120000 if tier == "quick" else 600000)
    nw = H.validate_call_witnesses(results, cmp=_cmp_devices)
    H.finish("C05", tier, "model_checking", results, t0,
             rule="one symbolic run per device type: every byte of the 165/168/159-byte datagram is a solver variable under the "
                  "well-formedness predicate; each delivered field is compared with the reference decoder",
             bounds={"datagram": "all bytes free", "well-formedness": "spec.broadcast.wellformed (times < 86400, enumerants in domain, "
                     "valid UTF-8 NUL-padded name, position <= 100 with zero second byte, printable 8-byte remote id)"},
             assumptions=["FP lemma L2 (watts/220 to one decimal)", "temperature compared as the same float quotient n/10",
                          "type-2 layout anchored only in the protocol as read by this library (no captures shipped)"],
             technique="SHADOW symbolic execution of the real Python source + z3 QF_BV; cvc5/z3 QF_BVFP lemma for amps",
             witness_checked=nw, exhaustive_splits=True,
             extra={"states": sum(r["stats"]["feasible_paths"] for r in results),
                    "transitions": sum(r["stats"]["branch_decisions"] for r in results)})


def _cmp_devices(exp, o):
    return o.get("devices") == exp["devices"] and (o.get("exception") is None) == (exp["exception"] is None)


# =============================================================================== C06
def run_c06(case, eng, res):
    kind = case["kind"]

    def body(path):
        if kind == "blob":
            head = A.fresh_bytes(path, "dg", 2)
            blob, bn = A.fresh_blob(path, "dgtail", 0, 65505)
            d = SymSeq("bytes", head.items + [blob])
            n = bn + 2
        elif kind == "tiny":
            d = A.fresh_bytes(path, "dg", case["n"])
            n = case["n"]
        else:
            d = A.fresh_bytes(path, "dg", case["n"])
            n = case["n"]
        magic = b_and(*[sym_eq(O.u(d, k), v) for k, v in ((0, 0xFE), (1, 0xF0))]) if (kind != "tiny" or case["n"] >= 2) else False
        gate = b_and(magic, b_or(i_eq(n, 165), i_eq(n, 168), i_eq(n, 159)))
        if case.get("repeat"):
            # the same foreign byte string arrives again and again: each arrival is ignored like the first (a counter, a
            # budget or a "seen before" memo would show at its k-th arrival); the last arrival is the one checked below
            path.assume(bterm(b_not(gate)))
            for _k in range(case["repeat"] - 1):
                t0_, g0_, e0_ = parse_run(path, d if not (kind == "tiny" and case["n"] == 0) else b"")
                if t0_ != "ok" or g0_ or path.notes.get("warnings"):
                    path.notes["early"] = _k + 1
                    return (t0_, g0_, e0_, d, gate, n)
        try:
            out = parse_run(path, d if not (kind == "tiny" and case["n"] == 0) else b"")
        except E.Unsupported:
            # the blob run only covers what the gate rejects; datagrams that pass the gate have one of
            # three concrete lengths and are covered by the all-bytes-free runs
            if kind == "blob" and path.refute(bterm(b_not(gate)), want_model=False) is None:
                raise E.PathAbort()
            raise
        return out + (d, gate, n)

    npaths = 0
    for path, out, exc in eng.explore(body):
        if exc is not None:
            raise exc
        npaths += 1
        path.twin("C06")
        tag, got, e, d, gate, n = out
        warns = path.notes.get("warnings", [])
        quiet = (tag == "ok" and not got and not warns)
        checks = []
        # (a) anything that fails the gate is ignored silently
        checks.append(("non_broadcast_ignored_silently", False if quiet else b_not(gate)))
        if kind == "full":
            r = SB.decode(O, d, "type1")
            known = b_or(*[i_eq(r["model"], code) for code in SB.MODELS])
            unk = b_and(gate, b_not(known))
            # (b) unknown model: no device, one warning, no error
            good_unknown = (tag == "ok" and not got and len(warns) == 1)
            checks.append(("unknown_model_warns_without_error", False if good_unknown else unk))
            # (c) the gate must not reject genuine lengths with the magic: a known model is not ignored
            checks.append(("genuine_broadcast_not_ignored", b_and(gate, known) if quiet else False))
        for lbl, bad in checks:
            res["checks"][lbl] = res["checks"].get(lbl, 0) + 1
            if bad is False:
                eng.stats.checks += 1
                eng.stats.checks_discharged += 1
                continue
            m = path.refute(bterm(bad) if not isinstance(bad, bool) else z3.BoolVal(bad))
            if m is not None:
                res["violations"].append({"what": "C06 %s" % lbl + (" (arrival %d of the same datagram)" % path.notes.get("early", case["repeat"]) if case.get("repeat") else ""),
                                          "case": case, "replay": dict(dgram_replay(m, d, "C06") if not isinstance(d, bytes) else {"kind": "datagram", "data": "", "oracle": "C06"},
                                                                       **({"repeat": path.notes.get("early", case["repeat"])} if case.get("repeat") else {}))})
        mw = path.witness()
        rp = dgram_replay(mw, d, None) if not isinstance(d, bytes) else {"kind": "datagram", "data": ""}
        if case.get("repeat"):
            rp["repeat"] = path.notes.get("early", case["repeat"])
        res["witnesses"].append({"replay": rp, "expected": {"devices": [C.conc(mw, g) for g in got], "exception": type(e).__name__ if e else None,
                                                          "warnings": len(warns)}})
        if len(res["samples"]) < 2:
            res["samples"].append({"case": case, "witness_len": len(bytes.fromhex(rp["data"])), "outcome": tag, "devices": len(got), "warnings": len(warns)})
    if npaths == 0:
        raise E.HarnessError("no feasible path")


def main_c06(tier):
    t0 = time.time()
    FL.lemma_amps(65535)
    cases = [{"kind": "blob"}, {"kind": "tiny", "n": 0}, {"kind": "tiny", "n": 1}]
    cases += [{"kind": "full", "n": n} for n in (165, 168, 159)]
    extra_lens = [2, 3] + list(range(150, 180)) if tier == "quick" else list(range(2, 400))
    cases += [{"kind": "tiny", "n": n} for n in extra_lens if n not in (165, 168, 159)]
    reps = 128 if tier == "quick" else 1024
    cases += [dict(c, repeat=reps) for c in ({"kind": "blob"}, {"kind": "tiny", "n": 0}, {"kind": "tiny", "n": 1}, {"kind": "tiny", "n": 164},
                                             {"kind": "full", "n": 165})]
    results = H.run_cases("harness.bcast", "run_c06", cases, timeout_ms=120000 if tier == "quick" else 600000)
    nw = H.validate_call_witnesses(results, cmp=lambda exp, o: _cmp_devices(exp, o) and o.get("warnings") == exp["warnings"])
    H.finish("C06", tier, "model_checking", results, t0,
             rule="datagram = 2 free bytes + tail of symbolic length 0..65505 (every length and content in one query per path); "
                  "the three accepted lengths additionally with every byte free; lengths 0 and 1 concretely",
             bounds={"datagram length": "0..65507", "content": "every byte free"},
             assumptions=["warnings.warn modelled as an append to the run's warning list"],
             technique="SHADOW symbolic execution of the real Python source + z3 QF_BV, symbolic-length blob",
             witness_checked=nw, exhaustive_splits=False,
             extra={"states": sum(r["stats"]["feasible_paths"] for r in results),
                    "transitions": sum(r["stats"]["branch_decisions"] for r in results)})
