"""Symbolic arguments / replies for control_breeze_device (C01, C16) and the recording remote stub."""
import z3

from shadow import loader, stubs, engine as E
from shadow.values import SymSeq, SymInt, SymBool, SymChoice, Blob, U8, b_and, b_not, b_or, bterm, i_eq
from shadow import concretize as C

SETTINGS = ["state", "mode", "target_temp", "fan_level", "swing"]


class RecordingRemote:
    """stands for a SwitcherBreezeRemote: records the arguments of build_command / build_swing_command and returns a real
    SwitcherBreezeCommand whose text is a blob of symbolic length (the real class computes the length field)"""

    def __init__(self, path, separated, ncalls_hint=2, text_len=None):
        self.text_len = text_len
        self._separated_swing_command = separated
        self.separated_swing_command = separated
        self.calls = []
        self.path = path

    def _command(self, tag):
        from harness import apiops as A

        remotes = loader.load("api.remotes")
        if self.text_len is not None:
            # a text of concrete length: every character a free printable ASCII byte, '|' after the first one
            n = self.text_len
            units = []
            for k in range(n):
                if k == 1 or n == 1:
                    units.append(124)
                    continue
                v = self.path.fresh_bv("%s_c%d" % (tag, k), 8)
                self.path.constrain(z3.And(z3.UGE(v, 48), z3.ULE(v, 122)))
                units.append(U8(v, True))
            text = SymSeq("str", units)
            cmd = remotes.SwitcherBreezeCommand("00000000" + stubs.s_hexlify(text.m_encode()).m_decode())
            return cmd, text
        para, n1 = A.fresh_blob(self.path, tag + "_para", 0, 1000)
        code, n2 = A.fresh_blob(self.path, tag + "_hex", 0, 1000)
        text = SymSeq("str", [para, 124, code])
        cmd = remotes.SwitcherBreezeCommand("00000000" + stubs.s_hexlify(text.m_encode()).m_decode())
        return cmd, text

    def build_command(self, state, mode, target_temp, fan_level, swing, current_state=None):
        cmd, text = self._command("ir%d" % len(self.calls))
        self.calls.append(dict(fn="build_command", state=state, mode=mode, target_temp=target_temp, fan_level=fan_level,
                               swing=swing, current_state=current_state, text=text))
        return cmd

    def build_swing_command(self, swing):
        cmd, text = self._command("sw%d" % len(self.calls))
        self.calls.append(dict(fn="build_swing_command", swing=swing, text=text))
        return cmd


def _choice(path, name, members, given):
    """requested enum value: None when not given, else a symbolic member"""
    from harness import apiops as A

    if not given:
        return None, None
    idx = A.fresh_int(path, name, 0, len(members) - 1)
    return SymChoice.mk(idx, members), idx


def build_control_breeze(path, mod, case, run):
    from harness import apiops as A

    dev = loader.load("device")
    req = case.get("req", "all")
    given = case.get("given")
    if given is None:
        given = {"all": [1, 1, 1, 1, 1], "swing_only": [0, 0, 0, 0, 1], "state_only": [1, 0, 0, 0, 0], "none": [0, 0, 0, 0, 0]}[req]
    remote = RecordingRemote(path, bool(case.get("separated")), text_len=case.get("ir_len"))
    state, si = _choice(path, "rq_state", [dev.DeviceState.ON, dev.DeviceState.OFF], given[0])
    mode, mi = _choice(path, "rq_mode", list(dev.ThermostatMode), given[1])
    target = A.fresh_int(path, "rq_target", 1, 60) if given[2] else 0
    fan, fi = _choice(path, "rq_fan", list(dev.ThermostatFanLevel), given[3])
    swing, wi = _choice(path, "rq_swing", list(dev.ThermostatSwing), given[4])
    update = bool(case.get("update"))
    run.extra.update(remote=remote, req=dict(state=state, mode=mode, target_temp=target, fan_level=fan, swing=swing), given=given,
                     update=update)

    def jargs(m):
        def ev(x):
            if x is None:
                return None
            v = C.conc(m, x)
            return {"enum": v} if isinstance(v, str) else v
        return [ev(state), ev(mode), C.ev_int(m, target) if not isinstance(target, int) else target, ev(fan), ev(swing), update]

    run.json_args = jargs
    return lambda api: api.control_breeze_device(remote, state, mode, target, fan, swing, update)


def thermostat_reply(path, tag="th"):
    from harness import apiops as A

    head = A.fresh_bytes(path, tag, 92)
    tail, _ = A.fresh_blob(path, tag + "_tail", 0, 932)
    for k in range(84, 92):
        # remote id: ASCII (C08 covers the UTF-8 cases)
        head.items[k].ascii = True
        path.constrain(z3.ULT(head.items[k].t, 128))
    return SymSeq("bytes", head.items + [tail])


def reply_plan(path, case, run, tag):
    """replies in the order the exchange consumes them: login, [state, command], [swing]"""
    from harness import apiops as A

    fault = case.get("fault")  # None | 'login' | 'state' | 'command' | 'swing'
    given = case.get("given")
    if given is None:
        given = {"all": [1, 1, 1, 1, 1], "swing_only": [0, 0, 0, 0, 1], "state_only": [1, 0, 0, 0, 0], "none": [0, 0, 0, 0, 0]}[case.get("req", "all")]
    sep = bool(case.get("separated"))
    actionable = bool(given[0] or given[1] or given[2] or given[3] or (given[4] and not sep))
    if fault == "login":
        run.replies[0] = b""
        run.session = SymSeq("bytes", [])
    run.extra["state_reply"] = None
    if actionable:
        if case.get("simple_state"):
            st = bytes(76) + bytes([0xE6, 0x00, 0x01, 0x04, 0x18, 0x10]) + bytes(18) if fault != "state" else b""
        else:
            st = thermostat_reply(path, tag + "th") if fault != "state" else b""
        run.extra["state_reply"] = st
        run.replies.append(st)
        run.replies.append(A.generic_reply(path, tag + "cmdr") if fault != "command" else b"")
    run.replies.append(A.generic_reply(path, tag + "swr") if fault != "swing" else b"")


def remote_json(run, m):
    """replay description of the remote: code texts of the (at most one) main and swing commands"""
    remote = run.extra["remote"]
    out = {"separated": bool(remote._separated_swing_command), "main": None, "swing": None}
    for c in remote.calls:
        text = C.ev_seq(m, c["text"])
        para, code = text.split("|", 1) if "|" in text else (text, "")
        if c["fn"] == "build_command":
            out["main"] = [para, code]
        else:
            out["swing"] = [para, code]
    return out
