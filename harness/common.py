"""Shared harness infrastructure: case-split runner (process pool), evidence, known findings,
replay files, witness validation against the unmodified code, exit codes."""
from __future__ import annotations

import hashlib
import json
import multiprocessing as mp
import os
import subprocess
import sys
import time
import traceback

VERIF = os.path.dirname(os.path.dirname(os.path.abspath(__file__)))
sys.path.insert(0, VERIF)

from shadow import engine as E  # noqa: E402
from shadow import loader  # noqa: E402
from shadow import floats as FL  # noqa: E402

VENV_PY = "/venv/bin/python"
EXIT_OK, EXIT_VIOLATION, EXIT_INCONCLUSIVE = 0, 1, 2


def seed():
    try:
        return int(os.environ.get("VERIF_SEED", "0"))
    except ValueError:
        return 0


class CaseResult(dict):
    pass


def new_result(case):
    return CaseResult(
        case=case, stats=E.Stats().as_dict(), violations=[], witnesses=[], samples=[], inconclusive=[],
        functions=[], lemmas={}, notes=[], known_hits=[], checks={},
    )


def _worker(args):
    fn_mod, fn_name, case, timeout_ms = args
    import importlib

    mod = importlib.import_module(fn_mod)
    fn = getattr(mod, fn_name)
    t0 = time.time()
    res = new_result(case)
    eng = E.Engine(timeout_ms=timeout_ms)
    try:
        fn(case, eng, res)
    except E.Unsupported as e:
        res["inconclusive"].append("unsupported: %s" % e)
    except E.Inconclusive as e:
        res["inconclusive"].append("solver: %s" % e)
    except E.HarnessError as e:
        res["inconclusive"].append("harness-error: %s" % e)
    except Exception as e:
        res["inconclusive"].append("harness-crash: %s: %s\n%s" % (type(e).__name__, e, traceback.format_exc()[-1500:]))
    for u in sorted(set(eng.unsupported))[:5]:
        res["inconclusive"].append("unsupported: %s" % u)
    res["stats"] = eng.stats.as_dict()
    res["functions"] = loader.functions_encoded()
    res["lemmas"] = dict(FL.LEMMAS)
    res["wall_s"] = round(time.time() - t0, 3)
    return res


def run_cases(fn_mod, fn_name, cases, timeout_ms=60000, procs=None, progress=False):
    """run fn(case, engine, result) for every case on a process pool"""
    procs = procs or min(16, os.cpu_count() or 1)
    args = [(fn_mod, fn_name, c, timeout_ms) for c in cases]
    if procs == 1 or len(cases) == 1:
        return [_worker(a) for a in args]
    ctx = mp.get_context("fork")
    out = []
    with ctx.Pool(processes=min(procs, len(cases)), maxtasksperchild=50) as pool:
        for k, r in enumerate(pool.imap_unordered(_worker, args, chunksize=1)):
            out.append(r)
            if progress and (k + 1) % 50 == 0:
                print("  .. %d/%d cases" % (k + 1, len(cases)), file=sys.stderr, flush=True)
    out.sort(key=lambda r: json.dumps(r["case"], sort_keys=True, default=str))
    return out


# ------------------------------------------------------------------------------- replay / witnesses


def replay_batch(items, timeout=900):
    """items: list of replay specs (JSON-able).  Runs them against the unmodified code under the
    repository's interpreter; returns the list of observations (same order)."""
    if not items:
        return []
    if len(items) > 150:
        # long batches (real sockets, sleeps) are cut into pieces so that none runs into the time limit
        out = []
        for i in range(0, len(items), 150):
            out.extend(replay_batch(items[i:i + 150], timeout))
        return out
    import tempfile

    with tempfile.NamedTemporaryFile("w", suffix=".json", delete=False, dir="/tmp") as fh:
        json.dump(items, fh)
        p = fh.name
    try:
        cp = subprocess.run([VENV_PY, os.path.join(VERIF, "replay.py"), "--batch", p], capture_output=True, text=True,
                            timeout=timeout)
        if cp.returncode != 0:
            raise E.HarnessError("replay batch failed: %s" % cp.stderr[-2000:])
        return json.loads(cp.stdout)
    finally:
        try:
            os.unlink(p)
        except OSError:
            pass


def write_replay(pid, spec):
    d = os.path.join(VERIF, "replays", pid)
    os.makedirs(d, exist_ok=True)
    blob = json.dumps(spec, sort_keys=True, indent=1)
    h = hashlib.sha1(blob.encode()).hexdigest()[:12]
    p = os.path.join(d, h + ".json")
    with open(p, "w") as fh:
        fh.write(blob)
    return p


# ------------------------------------------------------------------------------- known findings


def load_known(pid):
    p = os.path.join(VERIF, "known_findings.json")
    if not os.path.exists(p):
        return []
    with open(p) as fh:
        data = json.load(fh)
    return [f for f in data.get("findings", []) if f.get("property") == pid and f.get("status") == "known"]


# ------------------------------------------------------------------------------- finishing a check


def finish(pid, tier, level, results, t0, *, rule, bounds, assumptions, technique, extra=None, witness_checked=0,
           exhaustive_splits=None):
    """aggregate case results, confirm violations by replay, write evidence, print verdict, exit"""
    stats = E.Stats()
    violations, inconclusive, samples, functions, lemmas = [], [], [], set(), {}
    known_hits = {}
    checks = {}
    notes = []
    for r in results:
        for n_ in r.get("notes", []):
            if n_ not in notes:
                notes.append(n_)
        stats.merge(E.Stats.from_dict(r["stats"]))
        for v in r["violations"]:
            violations.append(v)
        for i in r["inconclusive"]:
            inconclusive.append({"case": r["case"], "reason": i})
        samples.extend(r["samples"][:2])
        functions.update(r["functions"])
        lemmas.update(r["lemmas"])
        for k in r["known_hits"]:
            known_hits[k["id"]] = k
        for k, v in r["checks"].items():
            checks[k] = checks.get(k, 0) + v
    # confirm violations on the unmodified code
    confirmed, unconfirmed = [], []
    if violations:
        obs = replay_batch([v["replay"] for v in violations])
        for v, o in zip(violations, obs):
            v["observed"] = o
            if o.get("violates"):
                confirmed.append(v)
            else:
                unconfirmed.append(v)
    for v in unconfirmed:
        inconclusive.append({"case": v.get("case"), "reason": "counterexample did not reproduce on the real code: %s / %s"
                             % (v.get("what"), json.dumps(v.get("observed"))[:400])})
    # known findings suppress only exact listed regions (the harness already excluded them from the query);
    # confirmed violations here are therefore new
    replay_paths = []
    seen = set()
    for v in confirmed:
        key = v.get("what")
        if key in seen:
            continue
        seen.add(key)
        p = write_replay(pid, {"property": pid, "what": v.get("what"), "case": v.get("case"), "replay": v["replay"],
                               "observed": v.get("observed")})
        replay_paths.append((v, p))
    wall = time.time() - t0
    cases = [r["case"] for r in results]
    cov = {
        "evaluations": int(stats.paths),
        "distinct_nontrivial": int(stats.paths),
        "rule": rule,
        "samples": samples[:12] if samples else [{"note": "no samples recorded"}],
        "exhaustive": False,
        "explanation": "solver-based bounded symbolic execution of the repository's own source (SHADOW); "
                       "every listed assertion was posed to z3 as pc /\\ not(spec) on every feasible path",
        "technique": technique,
        "functions_encoded": sorted(functions),
        "bounds": bounds,
        "case_splits": len(cases),
        "case_split_exhaustive": exhaustive_splits,
        "queries": stats.as_dict(),
        "assertions_by_label": checks,
        "float_lemmas": lemmas,
        "traces_validated_against_impl": int(witness_checked),
        "known_findings_hit": sorted(known_hits),
        "notes": notes[:20],
        "inconclusive": inconclusive[:20],
        "n_inconclusive": len(inconclusive),
    }
    if extra:
        cov.update(extra)
    ev = {
        "property_id": pid,
        "tier": tier,
        "seed": seed(),
        "level": level,
        "coverage": cov,
        "assumptions": assumptions,
        "wall_s": round(wall, 2),
        "violations": len(replay_paths),
    }
    # runs against a scratch copy of the sources (mutation / seeding trials) must not overwrite the evidence of /repo
    evdir = os.path.join(VERIF, "evidence")
    if os.environ.get("SHADOW_REPO_SRC") and os.environ.get("SHADOW_REPO_SRC") != "/repo/src":
        evdir = os.environ.get("VERIF_EVIDENCE_DIR", "/tmp/verif_scratch_evidence")
        ev["source_root"] = os.environ.get("SHADOW_REPO_SRC")
    os.makedirs(evdir, exist_ok=True)
    with open(os.path.join(evdir, pid + ".json"), "w") as fh:
        json.dump(ev, fh, indent=1, default=str)
    for n_ in notes[:5]:
        print("NOTE property=%s %s" % (pid, n_[:300]))
    for k in sorted(known_hits):
        print("KNOWN-FINDING: property=%s %s" % (pid, known_hits[k]["what"]))
    if replay_paths:
        for v, p in replay_paths:
            print("VIOLATION property=%s replay=%s" % (pid, p))
            print("  what: %s" % v.get("what"))
            print("  observed: %s" % json.dumps(v.get("observed"))[:600])
        sys.exit(EXIT_VIOLATION)
    if inconclusive:
        for i in inconclusive[:10]:
            print("INCONCLUSIVE property=%s reason=%s case=%s" % (pid, str(i["reason"])[:500], json.dumps(i["case"], default=str)[:200]))
        sys.exit(EXIT_INCONCLUSIVE)
    print("OK property=%s tier=%s paths=%d queries=%d (unsat %d) assertions=%d solver_s=%.1f wall_s=%.1f" % (
        pid, tier, stats.paths, sum(stats.queries.values()), stats.queries["unsat"], stats.checks, stats.solver_s, wall))
    sys.exit(EXIT_OK)


def model_int(m, t):
    """integer value of a z3 bit-vector term under model m (unsigned)"""
    import z3

    v = m.eval(t, model_completion=True)
    return v.as_long()


def model_sint(m, symint):
    """signed value of a SymInt|int under model"""
    from shadow.values import SymInt

    if isinstance(symint, int):
        return symint
    v = model_int(m, symint.t)
    w = symint.t.size()
    if v >= (1 << (w - 1)):
        v -= 1 << w
    return v


def validate_call_witnesses(results, cmp=None):
    """run every recorded witness on the unmodified code and compare with the symbolic result"""
    wit = [(r, w) for r in results for w in r["witnesses"]]
    obs = replay_batch([w["replay"] for _, w in wit])
    good = 0
    for (r, w), o in zip(wit, obs):
        exp = w["expected"]
        if cmp is not None:
            ok = cmp(exp, o)
        elif isinstance(exp, dict) and "exception" in exp:
            ok = "exception" in o and (exp["exception"] in o.get("mro", []) or exp["exception"] == o["exception"])
        else:
            ok = "result" in o and o["result"] == exp
        if ok:
            good += 1
        else:
            r["inconclusive"].append("witness mismatch (symbolic vs real): expected %s got %s for %s" % (
                str(exp)[:300], str(o)[:400], str(w["replay"].get("args"))[:300]))
    return good


def discharge(path, eng, res, checks, make_violation):
    """checks: list of (label, bad) with bad a SymBool|bool ("the property fails").  One combined query
    first (the disjunction); only when it is satisfiable are the disjuncts asked one by one."""
    import z3
    from shadow.values import b_or, bterm

    live = []
    for lbl, bad in checks:
        res["checks"][lbl] = res["checks"].get(lbl, 0) + 1
        if bad is False:
            eng.stats.checks += 1
            eng.stats.checks_discharged += 1
        else:
            live.append((lbl, bad))
    if not live:
        return
    if len(live) > 1 and not any(b is True for _l, b in live):
        allbad = b_or(*[b for _l, b in live])
        if allbad is not True:
            m = path.refute(bterm(allbad))
            if m is None:
                eng.stats.checks += len(live) - 1
                eng.stats.checks_discharged += len(live) - 1
                return
    for lbl, bad in live:
        m = path.refute(bterm(bad) if not isinstance(bad, bool) else z3.BoolVal(bad))
        if m is not None:
            res["violations"].append(make_violation(lbl, m))
