"""C17 / C18 - life cycles of the UDP bridge and of the TCP client, explored as action sequences
over the loop / stream contracts of DESIGN 3.3.  The action taken at each step is a solver
variable (constrained by the action's precondition); the engine forks over its feasible values."""
import time

import z3

from harness import common as H, apiops as A
from shadow import loader, engine as E, concretize as C, timeenv, aio, floats as FL
from shadow.values import SymInt, SymSeq, bterm, b_and, b_not

# =============================================================================== C17
B_ACTIONS = ["start", "stop", "enter", "exit", "send", "occupy", "release", "cycle", "stop_other"]


def valid_type1_datagram():
    """a concrete well-formed type-1 broadcast (content is irrelevant to the life cycle)"""
    d = bytearray(165)
    d[0:2] = b"\xfe\xf0"
    d[18:21] = b"\xaa\xbb\xcc"
    d[40] = 0x18
    d[42:46] = b"Boil"
    d[74:76] = bytes.fromhex("030b")
    d[76:80] = bytes([192, 168, 1, 33])
    d[80:86] = bytes.fromhex("12a1a21abc1a")
    d[133] = 1
    d[135:137] = (2600).to_bytes(2, "little")
    d[147:151] = (3000).to_bytes(4, "little")
    d[155:159] = (7200).to_bytes(4, "little")
    return bytes(d)


def run_c17(case, eng, res):
    bridge_mod = loader.load("bridge")
    ports = case["ports"]
    nsteps = case["steps"]
    first = case.get("first")
    dg = valid_type1_datagram()

    def body(path):
        timeenv.setup(path)
        w = aio.world()
        log = []
        br = bridge_mod.SwitcherBridge(lambda dev: log.append(dev), list(ports))
        other = bridge_mod.SwitcherBridge(lambda dev: None, list(ports))  # a second, never started bridge over the same ports
        trace = []
        viol = []
        owed = 0  # callbacks the bridge owes: broadcasts sent to a port it listened on (a stop cancels what is still owed)
        for step in range(nsteps):
            # action = kind * 8 + port index, a solver variable
            a = A.fresh_int(path, "act%d" % step, 0, len(B_ACTIONS) * 8 - 1)
            kind_i, pidx = a // 8, a % 8
            pre = pidx < len(ports)
            if step == 0 and first is not None:
                pre = b_and(pre, kind_i == B_ACTIONS.index(first))
            path.assume(bterm(pre))
            k = path.choose_value((kind_i if isinstance(kind_i, int) else kind_i).t, "kind") if not isinstance(kind_i, int) else kind_i
            kind = B_ACTIONS[k]
            if kind in ("send", "occupy", "release"):
                pi = path.choose_value(pidx.t, "port") if not isinstance(pidx, int) else pidx
            else:
                path.assume(bterm(pidx == 0) if not isinstance(pidx == 0, bool) else (pidx == 0))
                pi = 0
            port = ports[pi]
            if kind == "occupy" and (port in w.outsiders or port in w.bound):
                raise E.PathAbort()
            if kind == "release" and port not in w.outsiders:
                raise E.PathAbort()
            before_bound = set(w.bound)
            raised = None
            nlog = len(log)
            try:
                if kind == "start":
                    aio.run(br.start())
                elif kind == "enter":
                    aio.run(br.__aenter__())
                elif kind == "stop":
                    aio.run(br.stop())
                elif kind == "exit":
                    aio.run(br.__aexit__(None, None, None))
                elif kind == "send":
                    w.deliver(port, dg)
                elif kind == "occupy":
                    w.outsiders.add(port)
                elif kind == "release":
                    w.outsiders.discard(port)
                elif kind == "cycle":
                    w.cycle()
                elif kind == "stop_other":
                    aio.run(other.stop())
            except Exception as e:  # noqa: BLE001
                raised = e
            trace.append((kind, port if kind in ("send", "occupy", "release") else None, type(raised).__name__ if raised else None))
            mine = set(p for p, tr in w.bound.items())
            # ---- obligations after the step
            if kind in ("start", "enter"):
                if raised is None:
                    if not all(p in w.bound for p in ports):
                        viol.append("start returned but not every configured port is listening")
                    if br.is_running is not True:
                        viol.append("start returned but is_running is %r" % br.is_running)
                else:
                    left = mine - before_bound
                    if left:
                        viol.append("failed start left port(s) %s listening" % sorted(left))
                    if not isinstance(raised, OSError):
                        viol.append("failed start raised %s" % type(raised).__name__)
            if kind in ("stop", "exit"):
                if raised is not None:
                    viol.append("stop raised %s" % type(raised).__name__)
                if mine:
                    viol.append("stop returned but port(s) %s still listening" % sorted(mine))
                if br.is_running is not False:
                    viol.append("stop returned but is_running is %r" % br.is_running)
            # callbacks: never while stopped, never more than owed; what is owed is delivered at the latest after one loop
            # cycle (a callback handed to loop.call_soon is as good as an immediate one)
            if kind == "send" and port in before_bound:
                owed += 1
            if len(log) > nlog and not before_bound and kind not in ("start", "enter"):
                viol.append("callback made during '%s' although the bridge was not listening (stop had returned, or start never had)" % kind)
            if len(log) > owed:
                viol.append("broadcast to port %s: %d callbacks for %d broadcasts received" % (port, len(log), owed))
            if kind == "cycle" and before_bound and len(log) < owed:
                viol.append("a broadcast received while listening was not delivered after a loop cycle")
            if not mine:
                owed = len(log)
            if kind == "stop_other" and (raised is not None or mine != before_bound):
                viol.append("stopping another, never started bridge changed this bridge's sockets (%s -> %s)" % (sorted(before_bound), sorted(mine)))
            if raised is None and kind in ("start", "stop", "enter", "exit", "stop_other"):
                if bool(br.is_running) != all(p in w.bound for p in ports):
                    viol.append("is_running=%r but listening on %s of %s" % (br.is_running, sorted(mine), list(ports)))
            if w.loop_errors:
                viol.append("exception reported to the loop: %s" % type(w.loop_errors[0]).__name__)
            if viol:
                break
        return trace, viol

    n = 0
    seen = set()
    for path, out, exc in eng.explore(body):
        if exc is not None:
            raise exc
        n += 1
        trace, viol = out
        res["checks"]["sequence"] = res["checks"].get("sequence", 0) + 1
        eng.stats.checks += 1
        if not viol:
            eng.stats.checks_discharged += 1
        else:
            key = viol[0]
            if key not in seen:
                seen.add(key)
                path.twin("C17 violation reachable")
                res["violations"].append({"what": "C17 %s" % viol[0], "case": case,
                                          "replay": {"kind": "bridge_seq", "ports": "auto:%d" % len(ports), "model_port_list": list(ports), "trace": trace, "oracle": "C17"}})
        if n <= 3 or (n % 257 == 0 and len(res["witnesses"]) < 40) or (viol and len(res["witnesses"]) < 6):
            res["witnesses"].append({"replay": {"kind": "bridge_seq", "ports": "auto:%d" % len(ports), "model_port_list": list(ports), "trace": trace, "oracle": "C17"},
                                     "expected": {"violates": bool(viol)}})
        if len(res["samples"]) < 2:
            res["samples"].append({"case": case, "trace": trace, "violations": viol})
    if n == 0:
        raise E.HarnessError("no feasible sequence")


def main_c17(tier):
    t0 = time.time()
    cases = []
    if tier == "quick":
        for f in B_ACTIONS:
            if f == "release":
                continue
            cases.append({"ports": [20002, 20003], "steps": 4, "first": f})
        cases.append({"ports": [20002], "steps": 4})
        cases.append({"ports": [20002, 10002, 20003], "steps": 3})
    else:
        for f in B_ACTIONS:
            if f == "release":
                continue
            cases.append({"ports": [20002, 20003], "steps": 5, "first": f})
            cases.append({"ports": [20002, 10002, 20003, 10003], "steps": 4, "first": f})
            cases.append({"ports": [20002], "steps": 6, "first": f})
    results = H.run_cases("harness.lifecycle", "run_c17", cases, timeout_ms=60000 if tier == "quick" else 600000)
    nw = H.validate_call_witnesses(results, cmp=lambda exp, o: bool(o.get("violates")) == exp["violates"])
    H.finish("C17", tier, "model_checking", results, t0,
             rule="every sequence of <= n actions over {start, stop, enter, exit, send broadcast to port i, occupy port i, release port i, "
                  "loop cycle}; the action of each step is a solver variable constrained by its precondition, the engine forks over its feasible values",
             bounds={"actions": 4 if tier == "quick" else 5, "ports": "1..3" if tier == "quick" else "1..4"},
             assumptions=["loop/transport contract of DESIGN 3.3: create_datagram_endpoint raises EADDRINUSE iff the port is bound; "
                          "transport.close() releases the port at once and stops deliveries; exceptions in protocol callbacks go to the loop handler",
                          "what the kernel and asyncio really do on close is exercised only by the replays"],
             technique="SHADOW execution of the real Python source under a stub event loop; solver-enumerated action variables",
             witness_checked=nw, exhaustive_splits=True,
             extra={"states": sum(r["stats"]["feasible_paths"] for r in results),
                    "transitions": sum(r["stats"]["branch_decisions"] for r in results), "exhaustive": True})


# =============================================================================== C18
A_ACTIONS = ["connect", "refused_connect", "op", "failing_op", "disconnect", "ctx_ok", "ctx_body_raises", "ctx_refused",
             "ctx_body_runtime", "ctx_body_connerr", "ctx_body_failing_op"]
BODY_EXC = {"ctx_body_raises": KeyError, "ctx_body_runtime": RuntimeError, "ctx_body_connerr": ConnectionResetError,
            "ctx_body_failing_op": RuntimeError}


def run_c18(case, eng, res):
    api_mod = loader.load("api")
    api_type = case["api"]
    nsteps = case["steps"]
    first = case.get("first")

    def body(path):
        timeenv.setup(path)
        w = aio.world()
        refuse_next = [False]
        w.refuse_fn = lambda k: refuse_next[0]
        cls = api_mod.SwitcherType1Api if api_type == 1 else api_mod.SwitcherType2Api
        api = cls("192.168.1.10", "aabbcc", "18")
        state = {"connected": False, "last_conn": None}
        trace, viol = [], []

        def set_replies(login_ok):
            conn = w.conns[-1]
            base = conn.nreads
            # failing operation: the login succeeds, the state reply is 5 bytes of garbage
            reps = [bytes(20), bytes(107) if login_ok else bytes(5)]
            conn.reply_fn = lambda c, k: reps[k - base] if 0 <= k - base < len(reps) else b""

        def do_op(login_ok):
            set_replies(login_ok)
            if api_type == 1:
                return aio.run(api.get_state())
            return aio.run(api.get_shutter_state())

        for step in range(nsteps):
            a = A.fresh_int(path, "act%d" % step, 0, len(A_ACTIONS) - 1)
            if step == 0 and first is not None:
                path.assume(bterm(a == A_ACTIONS.index(first)))
            k = path.choose_value(a.t, "act") if isinstance(a, SymInt) else a
            kind = A_ACTIONS[k]
            # preconditions: connect only while disconnected; operations only while connected
            if (kind in ("connect", "ctx_ok", "ctx_refused") or kind in BODY_EXC) and state["connected"]:
                raise E.PathAbort()
            if kind in ("op", "failing_op") and not state["connected"]:
                raise E.PathAbort()
            raised = None
            nconn = len(w.conns)
            try:
                if kind == "connect":
                    refuse_next[0] = False
                    aio.run(api.connect())
                elif kind == "refused_connect":
                    refuse_next[0] = True
                    aio.run(api.connect())
                elif kind == "op":
                    do_op(True)
                elif kind == "failing_op":
                    do_op(False)
                elif kind == "disconnect":
                    aio.run(api.disconnect())
                elif kind in ("ctx_ok", "ctx_refused") or kind in BODY_EXC:
                    refuse_next[0] = kind == "ctx_refused"

                    async def ctx():
                        async with api as a_:
                            inside.append((a_ is api, api.connected, w.conns[-1].closed if w.conns else None))
                            if kind == "ctx_body_failing_op":
                                set_replies(False)
                                if api_type == 1:
                                    await api.get_state()
                                else:
                                    await api.get_shutter_state()
                            elif kind in BODY_EXC:
                                raise BODY_EXC[kind]("body")

                    inside = []
                    aio.run(ctx())
            except Exception as e:  # noqa: BLE001
                raised = e
            trace.append((kind, type(raised).__name__ if raised else None))
            # ---- obligations
            if kind == "connect":
                if raised is not None:
                    viol.append("connect raised %s" % type(raised).__name__)
                else:
                    state["connected"] = True
                    state["last_conn"] = w.conns[-1]
                    if len(w.conns) != nconn + 1:
                        viol.append("connect opened %d connections" % (len(w.conns) - nconn))
            elif kind == "refused_connect":
                if not isinstance(raised, ConnectionRefusedError):
                    viol.append("refused connection did not raise ConnectionRefusedError (%s)" % (type(raised).__name__ if raised else None))
                if len(w.conns) != nconn:
                    viol.append("refused connect left an open connection")
            elif kind == "op":
                if raised is not None:
                    viol.append("operation on a connected client raised %s" % type(raised).__name__)
            elif kind == "failing_op":
                if not isinstance(raised, RuntimeError):
                    viol.append("failing operation raised %s" % (type(raised).__name__ if raised else None))
            elif kind == "disconnect":
                if raised is not None:
                    viol.append("disconnect raised %s" % type(raised).__name__)
                state["connected"] = False
                if state["last_conn"] is not None and not state["last_conn"].closed:
                    viol.append("disconnect returned but the socket is still open (device saw no EOF)")
            else:
                if kind == "ctx_refused":
                    if not isinstance(raised, ConnectionRefusedError):
                        viol.append("refused connection in a context did not raise ConnectionRefusedError")
                    if len(w.conns) != nconn:
                        viol.append("refused context left an open connection")
                else:
                    if kind == "ctx_ok" and raised is not None:
                        viol.append("context raised %s" % type(raised).__name__)
                    if kind in BODY_EXC and not isinstance(raised, BODY_EXC[kind]):
                        viol.append("body exception was replaced by %s" % (type(raised).__name__ if raised else None))
                    if not inside or inside[0] != (True, True, False):
                        viol.append("inside the context: (same object, connected, socket closed) = %r" % (inside[:1],))
                    if not w.conns[-1].closed:
                        viol.append("leaving the context did not close the socket")
                state["connected"] = False
            if api.connected is not state["connected"]:
                viol.append("after %s: connected=%r, expected %r" % (kind, api.connected, state["connected"]))
            open_conns = [c for c in w.conns if not c.closed]
            if len(open_conns) != (1 if state["connected"] else 0):
                viol.append("after %s: %d open sockets, expected %d" % (kind, len(open_conns), 1 if state["connected"] else 0))
            if viol:
                break
        return trace, viol

    n = 0
    seen = set()
    for path, out, exc in eng.explore(body):
        if exc is not None:
            raise exc
        n += 1
        trace, viol = out
        res["checks"]["sequence"] = res["checks"].get("sequence", 0) + 1
        eng.stats.checks += 1
        if not viol:
            eng.stats.checks_discharged += 1
        elif viol[0] not in seen:
            seen.add(viol[0])
            res["violations"].append({"what": "C18 %s" % viol[0], "case": case,
                                      "replay": {"kind": "api_life", "api": api_type, "trace": trace, "oracle": "C18"}})
        if n <= 3 or (n % 211 == 0 and len(res["witnesses"]) < 40):  # real-server replays cost ~0.3 s each: at most 40 per case
            res["witnesses"].append({"replay": {"kind": "api_life", "api": api_type, "trace": trace, "oracle": "C18"},
                                     "expected": {"violates": bool(viol)}})
        if len(res["samples"]) < 2:
            res["samples"].append({"case": case, "trace": trace, "violations": viol})
    if n == 0:
        raise E.HarnessError("no feasible sequence")


def main_c18(tier):
    t0 = time.time()
    steps = 4 if tier == "quick" else 6
    cases = [{"api": t, "steps": steps, "first": f} for t in (1, 2) for f in A_ACTIONS if f not in ("op", "failing_op")]
    results = H.run_cases("harness.lifecycle", "run_c18", cases, timeout_ms=60000 if tier == "quick" else 600000)
    nw = H.validate_call_witnesses(results, cmp=lambda exp, o: bool(o.get("violates")) == exp["violates"])
    H.finish("C18", tier, "model_checking", results, t0,
             rule="every sequence of <= n actions over {connect, refused connect, operation, failing operation, disconnect, "
                  "async-with (normal / body raises / refused)} for both API types; connect is only issued while disconnected",
             bounds={"actions": steps, "outside": "a second *successful* connect on a live client (a refused one is included)"},
             assumptions=["stream contract of DESIGN 3.3: close()+wait_closed() deliver EOF; open_connection raises ConnectionRefusedError when refused"],
             technique="SHADOW execution of the real Python source under stub streams; solver-enumerated action variables",
             witness_checked=nw, exhaustive_splits=True,
             extra={"states": sum(r["stats"]["feasible_paths"] for r in results),
                    "transitions": sum(r["stats"]["branch_decisions"] for r in results), "exhaustive": True})
