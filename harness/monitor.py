"""Write-set monitor: fingerprints of everything that outlives an operation (module globals,
class attributes, function defaults, instance attributes) taken before and after."""
import sys
import types

from shadow.values import is_sym

PKG = "aioswitcher_sym"


def _fp(v, depth=0):
    if depth > 4:
        return ("deep", id(v))
    if v is None or isinstance(v, (bool, int, float, str, bytes)):
        return ("v", repr(v)[:80])
    if is_sym(v):
        return ("sym", id(v))
    if isinstance(v, (list, tuple)):
        return (type(v).__name__, tuple(_fp(x, depth + 1) for x in v))
    if isinstance(v, (set, frozenset)):
        return (type(v).__name__, tuple(sorted((repr(_fp(x, depth + 1)) for x in v))))
    if isinstance(v, dict):
        return ("dict", tuple((repr(k)[:60], _fp(x, depth + 1)) for k, x in v.items()))
    return ("obj", id(v))


def snapshot(instances=()):
    snap = {}
    for name, mod in list(sys.modules.items()):
        if not (name == PKG or name.startswith(PKG + ".")) or mod is None:
            continue
        for k, v in list(vars(mod).items()):
            if k.startswith("__"):
                continue
            snap[("global", name, k)] = _fp(v)
            if isinstance(v, type) and getattr(v, "__module__", "") == name:
                for ck, cv in list(vars(v).items()):
                    if ck.startswith("__") and ck not in ("__dict__",):
                        continue
                    if isinstance(cv, (types.FunctionType, staticmethod, classmethod, property)):
                        f = cv if isinstance(cv, types.FunctionType) else getattr(cv, "__func__", None) or getattr(cv, "fget", None)
                        if isinstance(f, types.FunctionType):
                            snap[("defaults", name, v.__name__ + "." + ck)] = _fp(f.__defaults__) if f.__defaults__ else None
                        continue
                    snap[("classattr", name, v.__name__ + "." + ck)] = _fp(cv)
            if isinstance(v, types.FunctionType) and v.__defaults__:
                snap[("defaults", name, k)] = _fp(v.__defaults__)
    from shadow.dispatch import SYM

    for did, (dobj, side) in SYM.symkeys.items():
        if side:
            snap[("symbolic-keyed entries of dict", did)] = len(side)
    for i, inst in enumerate(instances):
        for k, v in vars(inst).items():
            snap[("instance", i, k)] = _fp(v)
    return snap


def diff(a, b):
    out = []
    for k in sorted(set(a) | set(b), key=repr):
        if a.get(k) != b.get(k):
            out.append(k)
    return out
