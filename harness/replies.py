"""C08 / C09 - decoding of device replies and behaviour under arbitrary replies."""
import time

import z3

from harness import common as H, apiops as A
from harness.symops import O
from harness.bcast import iso_units, field_ok
from shadow import loader, engine as E, concretize as C, timeenv, stubs, floats as FL, aio
from shadow.values import (SymSeq, SymInt, SymBool, Opaque, b_and, b_not, b_or, b_implies, bterm, i_eq, sym_eq)
from spec import replies as SR

KIND_OF = {"get_state": "state1", "get_shutter_state": "shutter", "get_breeze_state": "thermostat"}


def state_reply(path, kind, tag="st"):
    n = SR.MIN_LEN[kind]
    head = A.fresh_bytes(path, tag, n)
    tail, _ = A.fresh_blob(path, tag + "_tail", 0, 1024 - n)
    return SymSeq("bytes", head.items + [tail])


def expected_state(dev, r, kind):
    if kind == "state1":
        return {
            "state": ("enum2", i_eq(r["state"], 1), dev.DeviceState.ON, dev.DeviceState.OFF),
            "time_left": ("iso", r["left_s"]), "time_on": ("iso", r["on_s"]), "auto_shutdown": ("iso", r["auto_s"]),
            "power_consumption": r["watts"], "electric_current": ("amps", r["watts"]),
        }
    if kind == "shutter":
        return {"position": r["position"],
                "direction": ("enumtab", r["direction"], {k: getattr(dev.ShutterDirection, v) for k, v in SR.DIRECTIONS.items()})}
    modes = {k: getattr(dev.ThermostatMode, v) for k, v in SR.MODES.items()}
    fans = {k: getattr(dev.ThermostatFanLevel, v) for k, v in SR.FANS.items()}
    return {
        "state": ("enum2", i_eq(r["state"], 0), dev.DeviceState.OFF, dev.DeviceState.ON),
        "mode": ("enumtab_default", r["mode"], modes, dev.ThermostatMode.COOL),
        "fan_level": ("enumtab_default", r["fan"], fans, dev.ThermostatFanLevel.LOW),
        "swing": ("enum2", i_eq(r["swing"], 0), dev.ThermostatSwing.OFF, dev.ThermostatSwing.ON),
        "temperature": FL.FQuot(r["temp10"], 10), "target_temperature": r["target"],
        "remote_id": SymSeq("str", list(r["remote"].items), stripnul=True),
    }


def field_ok2(actual, e):
    if isinstance(e, tuple) and e[0] == "enumtab_default":
        _, v, tab, dflt = e
        return b_or(*([b_and(i_eq(v, k), actual is m) for k, m in tab.items()]
                      + [b_and(b_not(b_or(*[i_eq(v, k) for k in tab])), actual is dflt)]))
    return field_ok(actual, e)


# =============================================================================== C08
def run_c08(case, eng, res):
    dev = loader.load("device")
    op = case["op"]
    kind = KIND_OF[op]
    holder = {}

    def plan(path, case_, run, tag):
        rep = state_reply(path, kind)
        r = SR.decode(O, rep, kind)
        path.assume(bterm(SR.wellformed(O, rep, kind, r)))
        holder["r"] = r
        run.replies.append(rep)

    def body(path):
        return A.run_op(path, case, reply_plan=plan), holder["r"]

    n = 0
    for path, out, exc in eng.explore(body):
        if exc is not None:
            raise exc
        n += 1
        path.twin("C08")
        run, r = out
        checks = []
        if run.outcome != "ok":
            checks.append(("wellformed_reply_is_parsed", True))
        else:
            obj = run.result
            checks.append(("successful", b_not(obj.successful)))
            for f, ev in expected_state(dev, r, kind).items():
                checks.append(("field_" + f, b_not(field_ok2(getattr(obj, f, None), ev))))
        # login reply: session = bytes 8..11 as 8 hex digits (observable in the command frame)
        if len(run.frames) >= 2:
            sess = SymSeq("bytes", run.frames[1].items[8:12])
            checks.append(("login_session_bytes_8_11", b_not(sess.eq(run.session))))
        for lbl, bad in checks:
            res["checks"][lbl] = res["checks"].get(lbl, 0) + 1
            if bad is False:
                eng.stats.checks += 1
                eng.stats.checks_discharged += 1
                continue
            m = path.refute(bterm(bad) if not isinstance(bad, bool) else z3.BoolVal(bad))
            if m is not None:
                res["violations"].append({"what": "C08 %s (%s)" % (lbl, op), "case": case, "replay": A.replay_spec(run, m, "C08")})
        mw = path.witness()
        res["witnesses"].append({"replay": A.replay_spec(run, mw, None),
                                 "expected": {"result": C.conc(mw, run.result) if run.outcome == "ok" else None,
                                              "exception": type(run.result).__name__ if run.outcome == "exc" else None}})
        if len(res["samples"]) < 2:
            res["samples"].append({"case": case, "witness_reply": C.ev_seq(mw, run.replies[1]).hex()[:240],
                                   "decoded": C.conc(mw, run.result) if run.outcome == "ok" else type(run.result).__name__})
    if n == 0:
        raise E.HarnessError("no feasible path")


def run_c08_login(case, eng, res):
    """SwitcherLoginResponse built directly from a reply of n free bytes (an earlier reply first when case['before'])"""
    msgs = loader.load("api.messages")
    n = case["n"]

    def body(path):
        reps = []
        if case.get("before") is not None:
            b = A.fresh_bytes(path, "lgb", case["before"])
            reps.append(b)
            try:
                msgs.SwitcherLoginResponse(b)
            except Exception:  # noqa: BLE001
                pass
        rep = A.fresh_bytes(path, "lg", n)
        reps.append(rep)
        try:
            return reps, "ok", msgs.SwitcherLoginResponse(rep)
        except Exception as e:  # noqa: BLE001
            return reps, "exc", e

    k = 0
    for path, out, exc in eng.explore(body):
        if exc is not None:
            raise exc
        k += 1
        path.twin("C08")
        reps, tag, obj = out
        rep = reps[-1]
        if tag != "ok":
            bad = True
        else:
            want = stubs.s_hexlify(SymSeq("bytes", rep.items[8:12])).m_decode()
            bad = b_not(sym_eq(obj.session_id, want))
        res["checks"]["login_session_bytes_8_11"] = res["checks"].get("login_session_bytes_8_11", 0) + 1
        spec = lambda m, oracle: {"kind": "c08_login", "replies": [C.ev_seq(m, r).hex() for r in reps], "oracle": oracle}  # noqa: E731
        if bad is False:
            eng.stats.checks += 1
            eng.stats.checks_discharged += 1
        else:
            m = path.refute(bterm(bad) if not isinstance(bad, bool) else z3.BoolVal(bad))
            if m is not None:
                res["violations"].append({"what": "C08 login_session_bytes_8_11 (reply of %d bytes)" % n, "case": case,
                                          "replay": spec(m, "C08login")})
        mw = path.witness()
        res["witnesses"].append({"replay": spec(mw, None),
                                 "expected": {"result": {"session_id": C.conc(mw, obj.session_id)} if tag == "ok" else None,
                                              "exception": type(obj).__name__ if tag != "ok" else None}})
    if k == 0:
        raise E.HarnessError("no feasible path")


def run_c08_any(case, eng, res):
    return run_c08_login(case, eng, res) if case.get("kind") == "login" else run_c08(case, eng, res)


def _cmp_result(exp, o):
    if exp["exception"]:
        return o.get("exception") == exp["exception"]
    got = o.get("result")
    if not isinstance(got, dict):
        return False
    want = dict(exp["result"])
    return all(got.get(k) == v for k, v in want.items())


def main_c08(tier):
    t0 = time.time()
    FL.lemma_amps(65535)
    cases = [{"op": op} for op in KIND_OF]
    # the login reply on its own: every byte free, lengths real devices send (44) and around, with and without an earlier reply
    lens = [12, 13, 16, 44, 48] if tier == "quick" else list(range(12, 97))
    cases += [{"kind": "login", "n": n} for n in lens]
    cases += [{"kind": "login", "n": n, "before": b} for n in ([12, 44] if tier == "quick" else [12, 20, 44, 64]) for b in (12, 44)]
    results = H.run_cases("harness.replies", "run_c08_any", cases, timeout_ms=120000 if tier == "quick" else 600000)
    nw = H.validate_call_witnesses(results, cmp=_cmp_result)
    H.finish("C08", tier, "model_checking", results, t0,
             rule="state reply = 101/92/80 free bytes + tail of symbolic length (every reply length >= the parsed prefix in one run); "
                  "each field of the returned object is compared with the reference decoder; login session via the command frame",
             bounds={"reply": "parsed prefix fully symbolic, total length <= 1024",
                     "domain": "times < 86400, type-1 state byte 00/01, 3 shutter directions, remote id valid UTF-8 NUL padded; all other fields free"},
             assumptions=["FP lemma L2 for amps", "temperature compared as the same float quotient n/10", "stream contract (DESIGN 3.3)"],
             technique="SHADOW symbolic execution of the real Python source + z3 QF_BV",
             witness_checked=nw, exhaustive_splits=True,
             extra={"states": sum(r["stats"]["feasible_paths"] for r in results),
                    "transitions": sum(r["stats"]["branch_decisions"] for r in results)})


# =============================================================================== C09
STATE_OPS = ["get_state", "get_breeze_state", "get_shutter_state"]
BASE_OPS = ["control_device", "set_auto_shutdown", "set_device_name", "delete_schedule", "create_schedule", "stop", "set_position"]
T2_GUARDED = ["stop", "set_position", "get_breeze_state", "get_shutter_state"]


def _reply_of(path, spec, tag):
    """spec: int (that many free bytes) | ('tail', n) = n free bytes + tail of symbolic length"""
    if isinstance(spec, int):
        return A.fresh_bytes(path, tag, spec) if spec else b""
    n = spec[1]
    head = A.fresh_bytes(path, tag, n)
    tail, _ = A.fresh_blob(path, tag + "_tail", 0, 1024 - n)
    return SymSeq("bytes", head.items + [tail])


def run_c09_breeze(case, eng, res):
    """empty login reply on the thermostat control exchange: RuntimeError, no further frame (all request shapes / remote kinds)"""
    def body(path):
        c = dict(case, op="control_breeze_device", fault="login")
        return A.run_op(path, c)

    n = 0
    for path, run, exc in eng.explore(body):
        if exc is not None:
            raise exc
        n += 1
        path.twin("C09")
        res["checks"]["empty_login_reply_raises_RuntimeError"] = res["checks"].get("empty_login_reply_raises_RuntimeError", 0) + 1
        eng.stats.checks += 1
        bad = not (run.outcome == "exc" and isinstance(run.result, RuntimeError)) or len(run.frames) != 1
        mw = path.witness()
        if bad:
            res["violations"].append({"what": "C09 empty login reply (control_breeze_device): %s, %d frames" % (
                type(run.result).__name__, len(run.frames)), "case": case, "replay": A.replay_spec(run, mw, "C09")})
        else:
            eng.stats.checks_discharged += 1
        res["witnesses"].append({"replay": A.replay_spec(run, mw, None),
                                 "expected": {"exception": type(run.result).__name__ if run.outcome == "exc" else None,
                                              "nframes": len(run.frames), "successful": None}})
        if len(res["samples"]) < 1:
            res["samples"].append({"case": case, "outcome": run.outcome, "frames": len(run.frames)})
    if n == 0:
        raise E.HarnessError("no feasible path")


def run_c09(case, eng, res):
    if case.get("op") == "control_breeze_device":
        return run_c09_breeze(case, eng, res)
    op = case["op"]
    l0, l1 = case["l0"], case["l1"]
    l0 = tuple(l0) if isinstance(l0, list) else l0
    l1 = tuple(l1) if isinstance(l1, list) else l1

    def plan(path, case_, run, tag):
        lr = _reply_of(path, l0, "lg")
        run.replies[0] = lr
        if isinstance(lr, SymSeq) and len([u for u in lr.items]) >= 12:
            run.session = SymSeq("bytes", lr.items[8:12])
        else:
            run.session = SymSeq("bytes", [])
        run.replies.append(_reply_of(path, l1, "rp"))

    def body(path):
        c = dict(case)
        if op == "control_device":
            c["command"] = "ON"
        if op == "set_device_name":
            c["B"] = 6
        rows = None
        if op == "create_schedule":
            rows = [r for r in timeenv.build_zone_table(["UTC"])]
        if case.get("after_good"):
            # a successful exchange first: nothing remembered from it may stand in for the failed login that follows
            first = A.run_op(path, dict(c, simple=True), zone_rows=rows, tag="first")
            run = A.run_op(path, c, reply_plan=plan, zone_rows=rows, api=first.api, dev=first.dev)
            run.extra["first"] = first
            return run
        return A.run_op(path, c, reply_plan=plan, zone_rows=rows)

    n = 0
    for path, run, exc in eng.explore(body):
        if exc is not None:
            raise exc
        n += 1
        path.twin("C09")
        checks = []
        login_empty = (l0 == 0)
        last = run.replies[1]
        last_len = (last.unit_len() if isinstance(last, SymSeq) else len(last))
        if op in STATE_OPS:
            if run.outcome == "exc" and not isinstance(run.result, RuntimeError):
                checks.append(("state_query_raises_only_RuntimeError", True, type(run.result).__name__))
            if run.outcome == "ok" and login_empty:
                checks.append(("empty_login_reply_raises", True, ""))
            if run.outcome == "ok":
                cls = type(run.result).__name__
                if cls not in ("SwitcherStateResponse", "SwitcherThermostatStateResponse", "SwitcherShutterStateResponse"):
                    checks.append(("state_query_returns_a_response", True, cls))
        if op in BASE_OPS and run.outcome == "ok":
            succ = run.result.successful
            from shadow.values import b_iff
            checks.append(("successful_iff_reply_non_empty", b_not(b_iff(succ, last_len > 0)), ""))
        if login_empty and (op in T2_GUARDED or op in STATE_OPS):
            if not (run.outcome == "exc" and isinstance(run.result, RuntimeError)):
                checks.append(("empty_login_reply_raises_RuntimeError", True, str(type(run.result).__name__)))
            if len(run.frames) != 1:
                checks.append(("no_frame_after_failed_login", True, "%d frames" % len(run.frames)))
        for lbl, bad, detail in checks:
            res["checks"][lbl] = res["checks"].get(lbl, 0) + 1
            if bad is False:
                eng.stats.checks += 1
                eng.stats.checks_discharged += 1
                continue
            m = path.refute(bterm(bad) if not isinstance(bad, bool) else z3.BoolVal(bad))
            if m is not None:
                if case.get("after_good"):
                    ops = []
                    for rr in (run.extra["first"], run):
                        s_ = A.replay_spec(rr, m, None)
                        ops.append({k: s_[k] for k in ("api", "dev_id", "key", "op", "args", "replies", "clock", "remote") if k in s_})
                    rp = {"kind": "api_seq", "mode": "seq", "ops": ops, "schedule": [], "oracle": "C09seq"}
                else:
                    rp = A.replay_spec(run, m, "C09")
                res["violations"].append({"what": "C09 %s (%s) %s" % (lbl, op, detail), "case": case, "replay": rp})
        mw = path.witness()
        if case.get("after_good"):
            if len(res["samples"]) < 1:
                res["samples"].append({"case": case, "outcome": run.outcome, "frames": len(run.frames)})
            continue
        res["witnesses"].append({"replay": A.replay_spec(run, mw, None),
                                 "expected": {"exception": type(run.result).__name__ if run.outcome == "exc" else None,
                                              "nframes": len(run.frames),
                                              "successful": (C.conc(mw, run.result.successful) if (run.outcome == "ok" and op in BASE_OPS) else None)}})
        if len(res["samples"]) < 1:
            res["samples"].append({"case": case, "outcome": run.outcome, "result": type(run.result).__name__,
                                   "reply_lens": [len(C.ev_seq(mw, r)) if isinstance(r, SymSeq) else len(r) for r in run.replies]})
    if n == 0:
        raise E.HarnessError("no feasible path")


def _cmp_c09(exp, o):
    if exp["exception"]:
        return o.get("exception") == exp["exception"] and len(o.get("frames", [])) == exp["nframes"]
    if "exception" in o:
        return False
    if exp["successful"] is not None:
        r = o.get("result") or {}
        ur = r.get("unparsed_response")
        succ = bool(ur and ur.get("bytes"))
        if succ != exp["successful"]:
            return False
    return len(o.get("frames", [])) == exp["nframes"]


def main_c09(tier):
    t0 = time.time()
    FL.lemma_amps(65535)
    FL.lemma_floor_div(60, 32)
    if tier == "quick":
        lens1 = list(range(0, 14)) + list(range(38, 53, 2)) + list(range(74, 102, 1))
        lens0 = [0, 1, 5, 8, 11]
    else:
        lens1 = list(range(0, 102))
        lens0 = list(range(0, 12))
    cases = []
    for op in STATE_OPS:
        for l1 in lens1 + [("tail", 101)]:
            cases.append({"op": op, "l0": ("tail", 12), "l1": l1})
        for l0 in lens0:
            cases.append({"op": op, "l0": l0, "l1": ("tail", 101)})
            cases.append({"op": op, "l0": l0, "l1": 0})
    for op in BASE_OPS:
        for l0 in lens0 + [("tail", 12)]:
            cases.append({"op": op, "l0": l0, "l1": ("tail", 0)})
    for op in STATE_OPS + ["stop", "set_position"]:
        cases.append({"op": op, "l0": 0, "l1": ("tail", 101), "after_good": True})
    for g in ([1, 1, 1, 1, 1], [0, 0, 0, 0, 1], [1, 0, 0, 0, 0], [0, 0, 0, 0, 0], [0, 1, 0, 1, 0]):
        for sep in (False, True):
            for upd in (False, True):
                cases.append({"op": "control_breeze_device", "given": g, "separated": sep, "update": upd})
    results = H.run_cases("harness.replies", "run_c09", cases, timeout_ms=120000 if tier == "quick" else 600000)
    nw = H.validate_call_witnesses(results, cmp=_cmp_c09)
    H.finish("C09", tier, "model_checking", results, t0,
             rule="one symbolic run per (operation, login-reply shape, second-reply shape): replies of a concrete length have every byte "
                  "free; the 'tail' shape is n free bytes plus a tail of symbolic length (all longer replies, empty included when n = 0)",
             bounds={"reply lengths": "0..101 concretely (quick: %d of them) and every length up to 1024 via the symbolic tail" % len(lens1),
                     "operations": STATE_OPS + BASE_OPS + ["control_breeze_device (empty login reply; later faults under C16)"]},
             assumptions=["exception classes raised by the stubs equal CPython's (validated by running the real code on one model per path)"],
             technique="SHADOW symbolic execution of the real Python source + z3 QF_BV",
             witness_checked=nw, exhaustive_splits=(tier == "thorough"),
             extra={"states": sum(r["stats"]["feasible_paths"] for r in results),
                    "transitions": sum(r["stats"]["branch_decisions"] for r in results)})
