"""Symbolic ops backend for the reference specs (solver terms via shadow.values)."""
import z3

from shadow.values import (SymSeq, SymInt, SymBool, U8, Blob, b_and, b_or, b_not, b_implies, i_ite, i_eq, unit_term)
from shadow import stubs
from shadow.dispatch import sym_len


class _O:
    def lit(self, hexs):
        return SymSeq("bytes", list(bytes.fromhex(hexs)))

    def _bytes_of(self, x, n):
        if isinstance(x, int):
            if not (0 <= x < (1 << (8 * n))):
                # out of range: a value no frame field can equal
                return None
            return list(x.to_bytes(n, "little"))
        t = x.term(max(x.w, 8 * n + 1))
        return [U8(z3.Extract(8 * k + 7, 8 * k, t)) for k in range(n)]

    def _le(self, x, n):
        bs = self._bytes_of(x, n)
        if bs is None:
            raise ValueError("spec integer out of range")
        return SymSeq("bytes", bs)

    def le16(self, x):
        return self._le(x, 2)

    def le32(self, x):
        return self._le(x, 4)

    def byte(self, x):
        return self._le(x, 1)

    def len(self, b):
        return sym_len(b) if isinstance(b, SymSeq) else len(b)

    def crc(self, data, init):
        data = SymSeq.of(data) if not isinstance(data, SymSeq) else data
        return SymInt.from_unsigned(stubs.crc_fold(data.items, z3.BitVecVal(init, 16)))

    def eq(self, a, b):
        if isinstance(a, (bytes, str)):
            a = SymSeq.of(a)
        if isinstance(a, SymSeq):
            return a.eq(b)
        if isinstance(a, (int, SymInt)) and isinstance(b, (int, SymInt)):
            return i_eq(a, b)
        r = a == b
        return r

    def ge(self, a, b):
        return a >= b

    def lt(self, a, b):
        return a < b

    def all(self, conds):
        return b_and(*list(conds))

    def any(self, conds):
        return b_or(*list(conds))

    def not_(self, c):
        return b_not(c)

    def implies(self, a, b):
        return b_implies(a, b)

    def ite(self, c, a, b):
        return i_ite(c, a, b)

    def u(self, d, i):
        x = d.items[i]
        return x if isinstance(x, int) else SymInt.from_unsigned(unit_term(x))

    def uint(self, d, i, n, order):
        """unsigned integer held in n bytes at offset i (one concatenation term, like the code under test builds it)"""
        return stubs.int_from_units(list(d.items[i:i + n]), order)

    def name_field_ok(self, f):
        """1..32 bytes of valid UTF-8 without embedded/trailing NUL garbage: text then NUL padding"""
        from shadow.utf8 import utf8_valid
        from shadow.values import unit_eq

        items = f.items
        n = len(items)
        # zero-padded: once a NUL appears every later byte is NUL; first byte is not NUL
        conds = [b_not(unit_eq(items[0], 0))]
        for k in range(1, n):
            conds.append(b_implies(unit_eq(items[k - 1], 0), unit_eq(items[k], 0)))
        conds.append(utf8_valid(items))
        return b_and(*conds)

    def ascii_field_ok(self, f):
        import z3 as _z
        from shadow.values import mk_bool

        cs = []
        for x in f.items:
            if isinstance(x, int):
                cs.append(32 < x < 127)
            else:
                t = unit_term(x)
                cs.append(mk_bool(_z.And(_z.UGT(t, 32), _z.ULT(t, 127))))
        return b_and(*cs)

    def sig_ok(self, frame):
        from spec.frames import signature

        items = frame.items
        if len(items) < 4 or any(isinstance(u, Blob) for u in items[-4:]):
            return False
        body = SymSeq("bytes", items[:-4])
        return SymSeq("bytes", items[-4:]).eq(signature(self, body))


O = _O()
