"""Symbolic clock-string / day-set arguments (create_schedule, C10-C13)."""
import z3

from shadow import timeenv
from shadow.values import SymSeq, SymInt, SymBool, SymSet, U8, b_and, b_or, bterm, i_ite, i_eq
from shadow import concretize as C

DAY_NAMES = ["MONDAY", "TUESDAY", "WEDNESDAY", "THURSDAY", "FRIDAY", "SATURDAY", "SUNDAY"]


def sym_hhmm(path, tag):
    """'HH:MM' with symbolic digits of a valid time; returns (text, h, m)"""
    d = [path.fresh_bv("%s_d%d" % (tag, i), 8) for i in range(4)]
    dig = [SymInt.mk(z3.ZeroExt(1, x) - 48, 0, 9) for x in d]
    path.constrain(z3.And(*[z3.And(z3.UGE(x, 48), z3.ULE(x, 57)) for x in d]))
    h = dig[0] * 10 + dig[1]
    m = dig[2] * 10 + dig[3]
    path.constrain(z3.And(bterm(h <= 23), bterm(m <= 59)))
    h = h.refine(0, 23)
    m = m.refine(0, 59)
    text = SymSeq("str", [U8(d[0], True), U8(d[1], True), 58, U8(d[2], True), U8(d[3], True)])
    return text, h, m


def sym_dayset(path, schedule_mod, tag="day"):
    """SymSet over the 7 Days members with free membership bits; returns (set, mask, guards)"""
    Days = schedule_mod.Days
    members = [Days[n] for n in DAY_NAMES]
    guards = [SymBool(path.fresh_bool("%s_%s" % (tag, d.name))) for d in members]
    s = SymSet([(g, d) for g, d in zip(guards, members)])
    mask = 0
    for k, g in enumerate(guards):
        # protocol: Monday 0x02 ... Sunday 0x80 (independent of the enum's own numbers)
        mask = mask + i_ite(g, 1 << (k + 1), 0)
    return s, mask, guards


def local_target_ok(te, v, reads, h, m):
    """v + off(v) == (local day of some clock read)*86400 + 3600h + 60m, v inside the zone row's window"""
    alts = []
    for r in reads:
        day = te.decomp(r + te.off(r), "spec")[0]
        alts.append(i_eq(v + te.off(v), ((day * 24 + h) * 60 + m) * 60))
    return b_and(b_or(*alts), te.in_window(v))


def build_create_schedule(path, mod, case, run):
    from shadow import loader
    from shadow.values import SymChoice
    from harness import apiops as A

    sched = loader.load("schedule")
    run.a["clock_ok"] = True
    run.a["days_dup"] = False
    if "free_start" in case:
        from harness.timeprops import _free_text, valid_hhmm_stripped

        start = _free_text(path, case["free_start"])
        run.a["clock_ok"] = valid_hhmm_stripped(start.items)
        run.a["clock_exact"] = valid_hhmm_stripped(start.items, strip=False)
        sh = sm = 0
    else:
        start, sh, sm = sym_hhmm(path, "start")
    end, eh, em = sym_hhmm(path, "end")
    if "days_seq" in case:
        members = [sched.Days[n] for n in DAY_NAMES]
        idxs = [A.fresh_int(path, "dayel%d" % k, 0, 6) for k in range(case["days_seq"])]
        days = [SymChoice.mk(i, members) for i in idxs]
        n = len(idxs)
        run.a["days_dup"] = b_or(*[i_eq(idxs[a], idxs[b]) for a in range(n) for b in range(a + 1, n)])
        mask = 0
        for k in range(7):
            mask = mask + i_ite(b_or(*[i_eq(i, k) for i in idxs]), 1 << (k + 1), 0)
        guards = None
    else:
        days, mask, guards = sym_dayset(path, sched)
    run.a["mask"] = mask
    run.extra.update(start=(sh, sm), end=(eh, em), guards=guards)

    def jargs(m):
        if guards is None:
            ds = [{"enum": "Days." + DAY_NAMES[C.ev_int(m, i)]} for i in idxs]
        else:
            ds = {"set": [{"enum": "Days." + n} for n, g in zip(DAY_NAMES, guards) if C.ev_bool(m, g)]}
        return [C.ev_seq(m, start), C.ev_seq(m, end), ds]

    run.json_args = jargs
    return lambda api: api.create_schedule(start, end, days)
