"""C11 / C13 - clock-time encoding in every zone; next-run text."""
import time

import z3

from harness import common as H, apiops as A, timeargs as TA
from shadow import loader, engine as E, concretize as C, timeenv, stubs, floats as FL
from shadow.values import (SymSeq, SymInt, SymBool, U8, Hx, b_and, b_not, b_or, b_implies, bterm, i_eq, i_ite, sym_eq,
                           unit_eq, mk_bool)

ROWS = {}
TIER = ["quick"]


def rows_of(zone):
    """quick tier: transitions 2024-2026; thorough: 2024-2037 (constant stretches reach 2105 in both)"""
    y1 = 2026 if TIER[0] == "quick" else 2037
    if y1 not in ROWS:
        ROWS[y1] = timeenv.build_zone_table(y1=y1)
    return [r for r in ROWS[y1] if r["zone"] == zone]


def zone_of(path, m, rows):
    te = path.notes["timeenv"]
    return rows[C.ev_int(m, te.zi)]["zone"]


def clock_list(path, m):
    te = path.notes["timeenv"]
    return [C.ev_int(m, t) + 0.25 for t in te.reads]


# =============================================================================== C11
def _free_text(path, n):
    units = []
    for i in range(n):
        v = path.fresh_bv("ch%d" % i, 8)
        path.constrain(z3.ULT(v, 128))
        units.append(U8(v, True))
    return SymSeq("str", units)


def _ws(u):
    t = u.t
    return mk_bool(z3.Or(t == 32, z3.And(z3.UGE(t, 9), z3.ULE(t, 13)), z3.And(z3.UGE(t, 28), z3.ULE(t, 31))))


def _dig(u, lo=0, hi=9):
    return mk_bool(z3.And(z3.UGE(u.t, 48 + lo), z3.ULE(u.t, 48 + hi)))


def valid_hhmm_stripped(units, strip=True):
    """text.strip() matches  H:M  (1-2 digit hour <= 23, 1-2 digit minute <= 59)"""
    n = len(units)
    alts = []
    for a in (range(0, n + 1) if strip else [0]):
        for b in (range(a, n + 1) if strip else [n]):
            core = units[a:b]
            for hd in (1, 2):
                for md in (1, 2):
                    if len(core) != hd + 1 + md:
                        continue
                    conds = [_ws(u) for u in units[:a]] + [_ws(u) for u in units[b:]]
                    h, c, mm = core[:hd], core[hd], core[hd + 1:]
                    conds.append(unit_eq(c, 58))
                    if hd == 2:
                        conds.append(b_or(b_and(_dig(h[0], 0, 1), _dig(h[1])), b_and(_dig(h[0], 2, 2), _dig(h[1], 0, 3))))
                    else:
                        conds.append(_dig(h[0]))
                    if md == 2:
                        conds.append(b_and(_dig(mm[0], 0, 5), _dig(mm[1])))
                    else:
                        conds.append(_dig(mm[0]))
                    alts.append(b_and(*conds))
    return b_or(*alts)


def run_c11(case, eng, res):
    tools = loader.load("schedule.tools")
    kind = case["kind"]
    rows = rows_of(case["zone"])

    def body(path):
        te = timeenv.setup(path, rows)
        if kind in ("roundtrip", "second"):
            info = {}
            if kind == "second":
                # an earlier encoding in the same process, then time passes (harness clock reads mark the interval)
                t0, _h0, _m0 = TA.sym_hhmm(path, "t0")
                try:
                    tools.time_to_hexadecimal_timestamp(t0)
                except Exception:  # noqa: BLE001
                    pass
                info["first_text"] = t0
                te.now()
            info["r0"] = len(te.reads)
            text, h, m = TA.sym_hhmm(path, "t")
            info.update(text=text, h=h, m=m)
            try:
                enc = tools.time_to_hexadecimal_timestamp(text)
                info["enc"] = enc
                if kind == "second":
                    te.now()
                info["r1"] = len(te.reads)
                dec = tools.hexadecimale_timestamp_to_localtime(enc.m_encode() if isinstance(enc, SymSeq) else enc.encode())
                info["dec"] = dec
                return ("ok", info)
            except Exception as e:  # noqa: BLE001
                info["exc"] = e
                return ("exc", info)
        text = _free_text(path, case["n"])
        info = dict(text=text)
        try:
            info["enc"] = tools.time_to_hexadecimal_timestamp(text)
            return ("ok", info)
        except Exception as e:  # noqa: BLE001
            info["exc"] = e
            return ("exc", info)

    n = 0
    for path, out, exc in eng.explore(body):
        if exc is not None:
            raise exc
        n += 1
        path.twin("C11")
        tag, info = out
        te = path.notes["timeenv"]
        checks = []
        if kind in ("roundtrip", "second"):
            if tag == "exc":
                checks.append(("existing_time_encodes", True))
            else:
                enc = info["enc"]
                if not isinstance(enc, SymSeq) or enc.kind != "str" or len(enc.items) != 8:
                    checks.append(("eight_hex_digits", True))
                else:
                    raw = stubs.s_unhexlify(enc)
                    v = stubs.int_from_units(list(raw.items), "little")
                    # "today" = the local date of a clock reading made while this call ran (second call: between the two
                    # harness readings that bracket it, the readings themselves included)
                    reads = te.reads[:1] if kind == "roundtrip" else te.reads[max(0, info["r0"] - 1):info["r1"]]
                    checks.append(("epoch_second_of_local_time_today_LE32", b_not(TA.local_target_ok(te, v, reads, info["h"], info["m"]))))
                    dec = info["dec"]
                    checks.append(("decode_returns_same_HH_MM", b_not(sym_eq(dec, info["text"]))))
        else:
            units = info["text"].items
            if tag == "ok":
                checks.append(("malformed_clock_string_raises", b_not(valid_hhmm_stripped(units))))
        for lbl, bad in checks:
            res["checks"][lbl] = res["checks"].get(lbl, 0) + 1
            if bad is False:
                eng.stats.checks += 1
                eng.stats.checks_discharged += 1
                continue
            m = path.refute(bterm(bad) if not isinstance(bad, bool) else z3.BoolVal(bad))
            if m is not None:
                res["violations"].append({"what": "C11 %s" % lbl, "case": case, "replay": c11_replay(path, m, info, rows, kind, "C11")})
        mw = path.witness()
        exp = {"exception": type(info["exc"]).__name__} if tag == "exc" else {"enc": C.conc(mw, info["enc"]), "dec": C.conc(mw, info.get("dec"))}
        res["witnesses"].append({"replay": c11_replay(path, mw, info, rows, kind, None), "expected": exp})
        if len(res["samples"]) < 2:
            res["samples"].append({"case": case, "zone": zone_of(path, mw, rows), "clock": clock_list(path, mw),
                                   "text": C.ev_seq(mw, info["text"]), "result": exp})
    if n == 0:
        raise E.HarnessError("no feasible path")


def c11_replay(path, m, info, rows, kind, oracle):
    d = {"kind": "c11", "mode": kind, "text": C.ev_seq(m, info["text"]), "zone": zone_of(path, m, rows),
         "clock": clock_list(path, m), "oracle": oracle}
    if "first_text" in info:
        d["first_text"] = C.ev_seq(m, info["first_text"])
        te = path.notes["timeenv"]
        r0, r1 = info["r0"], info.get("r1", len(te.reads))
        own = te.reads[r0] if r0 < r1 - 1 else te.reads[r0 - 1]
        d["clock"] = [C.ev_int(m, te.reads[0]) + 0.25, C.ev_int(m, own) + 0.25]
    return d


def _cmp_c11(exp, o):
    if "exception" in exp:
        return "exception" in o
    if o.get("enc") == exp["enc"] and (exp["dec"] is None or o.get("dec") == exp["dec"]):
        return True
    # a wall-clock time inside a DST fold has two instants; the model may pick the other one than glibc: accepted when
    # the real value is the same wall-clock time on the same local date
    if exp["dec"] is not None and o.get("dec") == exp["dec"] and o.get("v_local", "")[11:16] == exp["dec"] \
            and o.get("v_local", "")[:10] == o.get("now_local_date"):
        return True
    return False


def main_c11(tier):
    t0 = time.time()
    TIER[0] = tier
    zones = timeenv.ZONES if tier == "thorough" else ["UTC", "Asia/Jerusalem", "Australia/Lord_Howe", "America/St_Johns",
                                                      "Pacific/Kiritimati", "Pacific/Pago_Pago", "Asia/Kathmandu"]
    cases = [{"kind": "roundtrip", "zone": z} for z in zones]
    cases += [{"kind": "second", "zone": z} for z in (zones if tier == "thorough" else ["Asia/Jerusalem", "Pacific/Kiritimati", "America/St_Johns"])]
    maxn = 6 if tier == "quick" else 8
    cases += [{"kind": "free", "zone": "UTC", "n": n} for n in range(0, maxn + 1)]
    results = H.run_cases("harness.timeprops", "run_c11", cases, timeout_ms=120000 if tier == "quick" else 600000)
    nw = H.validate_call_witnesses(results, cmp=_cmp_c11)
    H.finish("C11", tier, "model_checking", results, t0,
             rule="per zone one symbolic run: 4 free digits of a valid HH:MM, clock instant free inside the zone row's window, zone row a "
                  "solver variable over the tz table; rejection: free ASCII text of n characters (all split/parse paths)",
             bounds={"zones": zones, "zone table": "every transition 2024-%d +-2 days and every constant stretch up to 2105" % (2026 if tier == "quick" else 2037),
                     "free text": "0..%d ASCII characters" % maxn, "outside": "non-ASCII digits, zones outside the table"},
             assumptions=["glibc mktime/localtime implement the tz table (zone contract, DESIGN 3.5); DST-gap times are pruned, folds allow either instant",
                          "CPython's strptime accepts exactly the language of its compiled pattern for %d/%m/%Y %H:%M"],
             technique="SHADOW symbolic execution of the real Python source + z3 QF_BV over a symbolic zone row",
             witness_checked=nw, exhaustive_splits=False,
             extra={"states": sum(r["stats"]["feasible_paths"] for r in results),
                    "transitions": sum(r["stats"]["branch_decisions"] for r in results)})


# =============================================================================== C13
DAYN = TA.DAY_NAMES
DAYV = ["Monday", "Tuesday", "Wednesday", "Thursday", "Friday", "Saturday", "Sunday"]


def _next_run_ok(te, t, got, T, info, dayidx):
    """the text `got` names the earliest upcoming run seen from the local wall clock of instant t"""
    te.path.assume(bterm(te.in_window(t)))
    day, hh, mm, ss = te.decomp(t + te.off(t), "spec")
    wd = te.weekday_of_day(day)
    now_min = hh * 60 + mm
    start_min = info["h"] * 60 + info["m"]
    alts = []
    for w in range(7):
        here = i_eq(wd, w)
        today_ok = b_and(w in dayidx, start_min > now_min)
        k1 = next(k for k in range(1, 8) if (w + k) % 7 in dayidx)
        name = DAYV[(w + k1) % 7]
        later = T("Due tomorrow at ") if k1 == 1 else T("Due next %s at " % name)
        alts.append(b_and(here, b_or(b_and(today_ok, sym_eq(got, T("Due today at "))), b_and(b_not(today_ok), sym_eq(got, later)))))
    return b_or(*alts)


def run_c13(case, eng, res):
    tools = loader.load("schedule.tools")
    sched = loader.load("schedule")
    rows = rows_of(case["zone"])
    mask = case["mask"]
    dayidx = [k for k in range(7) if mask & (1 << k)]
    days = {sched.Days[DAYN[k]] for k in dayidx}

    def body(path):
        te = timeenv.setup(path, rows)
        text, h, m = TA.sym_hhmm(path, "t")
        info = dict(text=text, h=h, m=m, r0=0)
        try:
            if case.get("second"):
                # the same question asked earlier in the same process; then time passes
                tools.pretty_next_run(text, set(days))
                te.now()
                info["r0"] = len(te.reads)
            info["out"] = tools.pretty_next_run(text, set(days))
            if case.get("second"):
                te.now()
            info["r1"] = len(te.reads)
            return ("ok", info)
        except Exception as e:  # noqa: BLE001
            info["exc"] = e
            return ("exc", info)

    n = 0
    for path, out, exc in eng.explore(body):
        if exc is not None:
            raise exc
        n += 1
        path.twin("C13")
        tag, info = out
        te = path.notes["timeenv"]
        checks = []
        if tag == "exc":
            checks.append(("next_run_text_is_produced", True))
        else:
            text = info["text"]
            got = info["out"]
            if isinstance(got, str):
                got = SymSeq.of(got)

            def T(prefix):
                return SymSeq.of(prefix) + text

            if not dayidx:
                good = sym_eq(got, T("Due today at "))
            else:
                lo_i = max(0, info["r0"] - 1) if case.get("second") else 0
                cand = te.reads[lo_i:info.get("r1", len(te.reads))]
                if not cand:
                    # the clock was never consulted although days are selected
                    good = False
                elif len(cand) > 1:
                    good = b_or(*[_next_run_ok(te, t, got, T, info, dayidx) for t in cand])
                else:
                    good = _next_run_ok(te, cand[0], got, T, info, dayidx)
            checks.append(("names_earliest_upcoming_run", b_not(good)))
        for lbl, bad in checks:
            res["checks"][lbl] = res["checks"].get(lbl, 0) + 1
            if bad is False:
                eng.stats.checks += 1
                eng.stats.checks_discharged += 1
                continue
            m = path.refute(bterm(bad) if not isinstance(bad, bool) else z3.BoolVal(bad))
            if m is not None:
                res["violations"].append({"what": "C13 %s" % lbl, "case": case, "replay": c13_replay(path, m, info, rows, dayidx, "C13")})
        mw = path.witness()
        exp = {"exception": type(info["exc"]).__name__} if tag == "exc" else {"result": C.conc(mw, info["out"])}
        res["witnesses"].append({"replay": c13_replay(path, mw, info, rows, dayidx, None), "expected": exp})
        if len(res["samples"]) < 1:
            res["samples"].append({"case": case, "zone": zone_of(path, mw, rows), "clock": clock_list(path, mw),
                                   "start": C.ev_seq(mw, info["text"]), "result": exp})
    if n == 0:
        raise E.HarnessError("no feasible path")


def c13_replay(path, m, info, rows, dayidx, oracle):
    d = {"kind": "c13", "start": C.ev_seq(m, info["text"]), "days": [DAYN[k] for k in dayidx], "zone": zone_of(path, m, rows),
         "clock": clock_list(path, m), "oracle": oracle}
    if info.get("r0"):
        te = path.notes["timeenv"]
        own = te.reads[info["r0"]] if info["r0"] < info.get("r1", 0) - 1 else te.reads[info["r0"] - 1]
        d["second"] = True
        d["clock"] = [C.ev_int(m, te.reads[0]) + 0.25, C.ev_int(m, own) + 0.25]
    return d


def main_c13(tier):
    t0 = time.time()
    TIER[0] = tier
    if tier == "thorough":
        zones = timeenv.ZONES
        cases = [{"zone": z, "mask": mk} for z in zones for mk in range(128)]
        cases += [{"zone": z, "mask": mk, "second": True} for z in ("Asia/Jerusalem", "America/New_York", "UTC") for mk in range(1, 128, 7)]
    else:
        cases = [{"zone": z, "mask": mk} for z in ("Asia/Jerusalem", "America/New_York") for mk in range(128)]
        cases += [{"zone": z, "mask": mk} for z in ("UTC", "Australia/Lord_Howe", "Pacific/Kiritimati", "Pacific/Pago_Pago")
                  for mk in (0, 1, 64, 65, 3, 0x2A, 0x55, 127)]
        cases += [{"zone": "Asia/Jerusalem", "mask": mk, "second": True} for mk in (1, 3, 64, 0x55, 127)]
    results = H.run_cases("harness.timeprops", "run_c13", cases, timeout_ms=120000 if tier == "quick" else 600000)
    nw = H.validate_call_witnesses(results, cmp=lambda exp, o: ("exception" in exp and "exception" in o) or
                                   ("result" in exp and o.get("result") == exp["result"]))
    H.finish("C13", tier, "model_checking", results, t0,
             rule="per (zone, day set): start HH:MM (4 free digits), clock instant and zone row symbolic; the returned text is compared "
                  "with the earliest-occurrence rule evaluated on the LOCAL weekday and minute of the clock read",
             bounds={"day sets": "all 128" if tier == "thorough" else "all 128 for two zones, 8 representative sets for four more",
                     "zone table": "transitions 2024-%d +-2 days, constant stretches to 2105" % (2026 if tier == "quick" else 2037)},
             assumptions=["zone contract of DESIGN 3.5"],
             technique="SHADOW symbolic execution of the real Python source + z3 QF_BV over a symbolic zone row",
             witness_checked=nw, exhaustive_splits=(tier == "thorough"),
             extra={"states": sum(r["stats"]["feasible_paths"] for r in results),
                    "transitions": sum(r["stats"]["branch_decisions"] for r in results)})
