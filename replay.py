#!/venv/bin/python
"""Replays against the UNMODIFIED repository code under the repository's interpreter.

  replay.py <replay.json>        one violation replay (prints observation, exit 1 if it violates)
  replay.py --batch <file.json>  list of replay specs -> JSON list of observations on stdout

No solver here: the oracles are the concrete reference specs in /verif/spec.
"""
import json
import os
import sys

sys.path.insert(0, os.path.dirname(os.path.abspath(__file__)))
sys.dont_write_bytecode = True
from replay_core import run_one  # noqa: E402
import replay_lib  # noqa: E402,F401

def main():
    if len(sys.argv) >= 3 and sys.argv[1] == "--batch":
        items = json.load(open(sys.argv[2]))
        out = []
        for it in items:
            try:
                out.append(run_one(it))
            except Exception as e:  # noqa: BLE001
                import traceback

                out.append({"replay_error": "%s: %s" % (type(e).__name__, e), "tb": traceback.format_exc()[-800:]})
        json.dump(out, sys.stdout)
        return 0
    rec = json.load(open(sys.argv[1]))
    spec = rec.get("replay", rec)
    obs = run_one(spec)
    print(json.dumps(obs, indent=1))
    if obs.get("violates"):
        print("VIOLATION reproduced: %s" % obs.get("why"))
        return 1
    print("no violation on this tree")
    return 0


if __name__ == "__main__":
    sys.exit(main())
