"""Replays against the UNMODIFIED repository code under the repository's interpreter.

  replay.py <replay.json>        one violation replay (prints observation, exit 1 if it violates)
  replay.py --batch <file.json>  list of replay specs -> JSON list of observations on stdout

No solver here: the oracles are the concrete reference specs in /verif/spec.
"""
import asyncio
import dataclasses
import datetime as _dt
import enum
import importlib
import json
import os
import sys
import time
import warnings

VERIF = os.path.dirname(os.path.abspath(__file__))
sys.path.insert(0, VERIF)
sys.path.insert(0, os.environ.get("SHADOW_REPO_SRC", "/repo/src"))
sys.dont_write_bytecode = True

from spec.ops_concrete import O  # noqa: E402
from spec import frames as SF  # noqa: E402

SKIP_FIELDS = {"last_data_update"}


# ------------------------------------------------------------------------------- (de)normalisation
def norm(x):
    if x is None or isinstance(x, (bool, int, str, float)):
        return x
    if isinstance(x, (bytes, bytearray)):
        return {"bytes": bytes(x).hex()}
    if isinstance(x, enum.Enum):
        return "%s.%s" % (type(x).__name__, x.name)
    if isinstance(x, (list, tuple)):
        return [norm(v) for v in x]
    if isinstance(x, (set, frozenset)):
        return {"set": sorted((norm(v) for v in x), key=repr)}
    if isinstance(x, dict):
        return {str(k): norm(v) for k, v in x.items()}
    if isinstance(x, BaseException):
        return {"exception": type(x).__name__}
    if isinstance(x, _dt.timedelta):
        return {"timedelta_s": int(x.total_seconds())}
    if dataclasses.is_dataclass(x) or hasattr(x, "__dict__"):
        d = {"__class__": type(x).__name__}
        for k, v in vars(x).items():
            if k in SKIP_FIELDS:
                continue
            d[k] = norm(v)
        return d
    return repr(x)


def denorm(x):
    """JSON -> python argument"""
    if isinstance(x, dict):
        if "bytes" in x and len(x) == 1:
            return bytes.fromhex(x["bytes"])
        if "enum" in x:
            cls, name = x["enum"].split(".")
            for modn in ("aioswitcher.device", "aioswitcher.schedule", "aioswitcher.api"):
                mod = importlib.import_module(modn)
                if hasattr(mod, cls):
                    return getattr(getattr(mod, cls), name)
            raise KeyError(x["enum"])
        if "set" in x:
            return set(denorm(v) for v in x["set"])
        if "tuple" in x:
            return tuple(denorm(v) for v in x["tuple"])
        if "timedelta_s" in x:
            return _dt.timedelta(seconds=x["timedelta_s"])
        if "str_surrogate" in x:
            return bytes.fromhex(x["str_surrogate"]).decode("utf-8", errors="surrogateescape")
        return {k: denorm(v) for k, v in x.items()}
    if isinstance(x, list):
        return [denorm(v) for v in x]
    return x


def exc_name(e):
    return {"exception": type(e).__name__, "mro": [c.__name__ for c in type(e).__mro__], "msg": str(e)[:200]}


# ------------------------------------------------------------------------------- environment
class Env:
    """virtual clock and zone for one replay"""

    def __init__(self, spec):
        self.zone = spec.get("zone")
        self.clock = spec.get("clock") or None  # list of floats (successive reads) or single float
        self.tm = None

    def __enter__(self):
        self.old_tz = os.environ.get("TZ")
        if self.zone:
            os.environ["TZ"] = self.zone
            time.tzset()
        if self.clock is not None:
            import time_machine

            reads = self.clock if isinstance(self.clock, list) else [self.clock]
            self.tm = time_machine.travel(float(reads[0]), tick=False)
            self.traveller = self.tm.start()
            self.reads = reads
            self.k = 0
            # successive clock reads return the scripted instants: wrap the module-level readers
            self.saved = {}
            env = self

            def wrap(name, is_read):
                orig = getattr(time, name)
                self.saved[name] = orig

                def w(*a, **kw):
                    if is_read(a, kw):
                        env.next_read()
                    return orig(*a, **kw)

                setattr(time, name, w)

            if len(reads) > 1:
                wrap("time", lambda a, kw: True)
                wrap("strftime", lambda a, kw: len(a) < 2)
                wrap("localtime", lambda a, kw: len(a) == 0 or a[0] is None)
                wrap("gmtime", lambda a, kw: len(a) == 0 or a[0] is None)
        return self

    def next_read(self):
        if self.k < len(self.reads):
            self.traveller.move_to(float(self.reads[self.k]))
        self.k += 1

    def __exit__(self, *a):
        if self.tm is not None:
            for name, orig in getattr(self, "saved", {}).items():
                setattr(time, name, orig)
            self.tm.stop()
        if self.zone:
            if self.old_tz is None:
                os.environ.pop("TZ", None)
            else:
                os.environ["TZ"] = self.old_tz
            time.tzset()


# ------------------------------------------------------------------------------- kinds
def k_call(spec):
    modn, fn = spec["func"].split(":")
    mod = importlib.import_module("aioswitcher." + modn)
    f = getattr(mod, fn)
    args = [denorm(a) for a in spec.get("args", [])]
    with Env(spec):
        for prev in spec.get("before", []):
            try:
                r0 = f(*([denorm(prev)] if not isinstance(prev, list) else [denorm(a) for a in prev]))  # a list = the argument list
                if spec.get("caller_clears_result") and hasattr(r0, "clear"):
                    r0.clear()  # what the caller does with the value it was handed is its own business
            except Exception:  # noqa: BLE001
                pass
        try:
            with warnings.catch_warnings(record=True) as ws:
                warnings.simplefilter("always")
                r = f(*args)
            out = {"result": norm(r), "warnings": len(ws)}
        except Exception as e:  # noqa: BLE001
            out = exc_name(e)
    return out


KINDS = {"call": k_call}
ORACLES = {}


def oracle(name):
    def deco(f):
        ORACLES[name] = f
        return f

    return deco


def kind(name):
    def deco(f):
        KINDS[name] = f
        return f

    return deco


def run_one(spec):
    obs = KINDS[spec["kind"]](spec)
    if spec.get("oracle"):
        verdict = ORACLES[spec["oracle"]](spec, obs)
        obs["violates"] = bool(verdict[0])
        obs["why"] = verdict[1]
    return obs


