"""Replay kinds and concrete oracles (imported by replay.py; runs under /venv/bin/python)."""
import binascii

from replay_core import oracle, kind, norm, denorm, exc_name, Env, O, SF  # noqa: F401


# ------------------------------------------------------------------------------- C04
@oracle("C04")
def o_c04(spec, obs):
    s = denorm(spec["args"][0])
    try:
        ok_hex = all(c in "0123456789abcdefABCDEF" for c in s) and len(s) % 2 == 0
    except TypeError:
        ok_hex = False
    if not ok_hex:
        if "exception" in obs:
            return False, "invalid hex raises"
        return True, "invalid hex input %r produced output %r" % (s, obs.get("result"))
    if "exception" in obs:
        return True, "valid hex input raised %s" % obs["exception"]
    body = bytes.fromhex(s)
    exp = s + SF.signature(O, body).hex()
    if obs["result"] != exp:
        return True, "signature mismatch: got %r expected %r" % (obs["result"], exp)
    return False, "ok"


# ------------------------------------------------------------------------------- fake device / api ops
import asyncio  # noqa: E402
import importlib  # noqa: E402

from spec import opspec as SO  # noqa: E402
import re as _re2  # noqa: E402


class FakeReader:
    def __init__(self, dev):
        self.dev = dev

    async def read(self, n=-1):
        await asyncio.sleep(0)
        k = self.dev.nreads
        self.dev.nreads += 1
        if k < len(self.dev.replies):
            r = self.dev.replies[k]
        else:
            r = b""
        return r[:n] if n and n > 0 else r


class FakeWriter:
    def __init__(self, dev):
        self.dev = dev

    def write(self, data):
        self.dev.frames.append(bytes(data))

    async def drain(self):
        await asyncio.sleep(0)

    def close(self):
        self.dev.closed += 1

    async def wait_closed(self):
        await asyncio.sleep(0)

    def is_closing(self):
        return self.dev.closed > 0


class FakeDevice:
    def __init__(self, replies):
        self.replies = replies
        self.frames = []
        self.nreads = 0
        self.closed = 0
        self.opened = 0
        self.frames_before = 0


def full_ir_set(remote_id, on_off_type, main, swing):
    """an IR set in which every key of the universe carries the same code text"""
    mp, mc = main or ["P", "C"]
    sp, sc = swing or ["P", "C"]
    waves = []
    bodies = []
    for mode in ("aa", "ad", "aw"):
        bodies.append(mode)
        for f in range(4):
            bodies.append("%s_f%d" % (mode, f))
            bodies.append("%s_f%d_d1" % (mode, f))
    for mode in ("ar", "ah"):
        for t in range(10, 36):
            bodies.append("%s%d" % (mode, t))
            for f in range(4):
                bodies.append("%s%d_f%d" % (mode, t, f))
                bodies.append("%s%d_f%d_d1" % (mode, t, f))
    for b in bodies:
        waves.append({"Key": b, "Para": mp, "HexCode": mc})
        if on_off_type:
            waves.append({"Key": "on_" + b, "Para": mp, "HexCode": mc})
    waves.append({"Key": "off", "Para": mp, "HexCode": mc})
    waves.append({"Key": "FUN_d0", "Para": sp, "HexCode": sc})
    waves.append({"Key": "FUN_d1", "Para": sp, "HexCode": sc})
    return {"IRSetID": remote_id, "OnOffType": 1 if on_off_type else 0, "IRWaveList": waves}


def build_remote(rspec):
    """remote for control_breeze_device replays: a real SwitcherBreezeRemote built from an IR set"""
    from aioswitcher.api.remotes import SwitcherBreezeRemote

    if "ir_set" in rspec:
        return SwitcherBreezeRemote(rspec["ir_set"])
    rid = "ELEC7022" if rspec.get("separated") else "DUMMY001"
    return SwitcherBreezeRemote(full_ir_set(rid, rspec.get("on_off_type", 0), rspec.get("main"), rspec.get("swing")))


def run_api_op(spec):
    api_mod = importlib.import_module("aioswitcher.api")
    dev = FakeDevice([bytes.fromhex(r) for r in spec["replies"]])

    async def fake_open_connection(host=None, port=None, **kw):
        dev.opened += 1
        return FakeReader(dev), FakeWriter(dev)

    real_open = api_mod.open_connection
    api_mod.open_connection = fake_open_connection
    try:
        cls = api_mod.SwitcherType1Api if spec["api"] == 1 else api_mod.SwitcherType2Api
        api = cls("127.0.0.1", spec["dev_id"], spec["key"])
        args = [denorm(a) for a in spec["args"]]
        kwargs = {k: denorm(v) for k, v in spec.get("kwargs", {}).items()}
        if spec.get("remote") is not None:
            args = [build_remote(spec["remote"])] + args

        before = spec.get("before_ops") or []

        async def go():
            await api.connect()
            try:
                for b in before:
                    try:
                        await getattr(api, b["op"])(*_op_args(b))
                    except Exception:  # noqa: BLE001
                        pass
                    dev.frames_before = len(dev.frames)
                return await getattr(api, spec["op"])(*args, **kwargs)
            finally:
                await api.disconnect()

        if before:
            dev.replies = [bytes.fromhex(x) for b in before for x in b["replies"]] + dev.replies
            spec = dict(spec, clock=[c for b in before for c in (b.get("clock") or [])] + list(spec.get("clock") or []))
        with Env(spec) as env:
            try:
                res = asyncio.run(go())
                out = {"result": norm(res)}
                if hasattr(res, "successful"):
                    out["successful"] = bool(res.successful)
                if hasattr(res, "schedules"):
                    out["schedules"] = [{"schedule_id": s.schedule_id, "recurring": s.recurring, "days": norm(s.days),
                                         "start_time": s.start_time, "end_time": s.end_time, "duration": s.duration,
                                         "display": s.display} for s in res.schedules]
            except Exception as e:  # noqa: BLE001
                out = exc_name(e)
    finally:
        api_mod.open_connection = real_open
    out["frames"] = [f.hex() for f in dev.frames[getattr(dev, "frames_before", 0):]]
    return out


kind("api_op")(run_api_op)


def _abstract_args(spec, frame):
    """abstract argument record (spec.opspec) from the concrete replay spec + the command frame"""
    op = spec["op"]
    a = {
        "session": bytes.fromhex(spec["replies"][0])[8:12],
        "dev_id": bytes.fromhex(spec["dev_id"]),
        "key": bytes.fromhex(spec["key"]),
        "ts": int.from_bytes(frame[24:28], "little") if frame is not None and len(frame) >= 28 else 0,
    }
    args = [denorm(x) for x in spec["args"]]
    if op == "control_device":
        a["on"] = 1 if args[0].name == "ON" else 0
        a["minutes"] = args[1]
    elif op == "set_auto_shutdown":
        a["secs"] = int(args[0].total_seconds())
    elif op == "set_device_name":
        a["name_bytes"] = args[0].encode()
        a["name_chars"] = len(args[0])
    elif op == "delete_schedule":
        a["slot"] = int(args[0]) if args[0].isdigit() else -1
    elif op == "set_position":
        a["position"] = args[0]
    elif op == "create_schedule":
        ws = " \t\n\r\x0b\x0c\x1c\x1d\x1e\x1f"
        pat = r"(2[0-3]|[0-1]\d|\d):([0-5]\d|\d)"
        a["clock_ok"] = all(_re2.fullmatch(pat, t.strip(ws)) is not None for t in args[:2])
        a["clock_exact"] = all(_re2.fullmatch(pat, t) is not None for t in args[:2])
        days = list(args[2]) if isinstance(args[2], (list, tuple, set)) else [args[2]]
        a["days_dup"] = len(set(days)) != len(days)
        a["mask"] = sum({DAY_BIT[d.name] for d in days})
        if frame is not None and len(frame) >= 95:
            a["start_t"] = int.from_bytes(frame[87:91], "little")
            a["end_t"] = int.from_bytes(frame[91:95], "little")
        else:
            a["start_t"] = a["end_t"] = 0
    return a


@oracle("C01")
def o_c01(spec, obs):
    """every written frame: magic, LE16 total length, terminator, signature"""
    if len(bytes.fromhex(spec["replies"][0])) < 12:
        return False, "login reply carries no session id (outside the statement)"
    for i, fh in enumerate(obs["frames"]):
        f = bytes.fromhex(fh)
        conds = SF.envelope_ok(O, f)
        for name, ok in conds.items():
            if not ok:
                return True, "frame %d (%d bytes) fails %s: header bytes 2..3 = %s" % (i, len(f), name, f[2:4].hex())
    return False, "all %d frames self-consistent" % len(obs["frames"])


@oracle("C02")
def o_c02(spec, obs):
    op = spec["op"]
    frames = [bytes.fromhex(f) for f in obs["frames"]]
    cmd = frames[1] if len(frames) > 1 else None
    a = _abstract_args(spec, cmd)
    acc = SO.accepted(O, op, a)
    raised = "exception" in obs
    if SO.must_reject(O, op, a):
        if raised and len(frames) <= 1:
            return False, "rejected argument raised, no command frame"
        return True, "argument outside the accepted domain did not raise cleanly (raised=%s, frames=%d)" % (raised, len(frames))
    if not acc:
        return False, "argument outside the documented domain: the statement is silent"
    if cmd is None:
        return True, "accepted arguments but no command frame was written (%s)" % (obs.get("exception"),)
    if op == "create_schedule" and spec.get("zone"):
        import zoneinfo
        import datetime as dt

        z = zoneinfo.ZoneInfo(spec["zone"])
        args = [denorm(x) for x in spec["args"]]
        nb = sum(len(b.get("clock") or []) for b in (spec.get("before_ops") or []))
        own = (spec.get("clock") or [])
        dates = {dt.datetime.fromtimestamp(c, z).strftime("%Y-%m-%d") for c in own}
        for text, v in ((args[0], a["start_t"]), (args[1], a["end_t"])):
            hh, mm = [int(x) for x in text.strip().split(":")]
            loc = dt.datetime.fromtimestamp(v, z)
            if loc.strftime("%Y-%m-%d") not in dates or (loc.hour, loc.minute, loc.second) != (hh, mm, 0):
                return True, "schedule time %r encoded as %d = local %s in %s (dates of the call: %s)" % (text, v, loc, spec["zone"], sorted(dates))
    exp = SO.expected_frame(O, SO.command_kind(op), op, a)
    if cmd != exp:
        d = [i for i in range(min(len(cmd), len(exp))) if cmd[i] != exp[i]]
        return True, "command frame differs from the reference layout: len %d vs %d, first differing offsets %s" % (len(cmd), len(exp), d[:6])
    return False, "ok"


# ------------------------------------------------------------------------------- C14
@kind("c14_schedule")
def k_c14s(spec):
    from aioswitcher.schedule.parser import SwitcherSchedule

    try:
        return {"result": SwitcherSchedule("1", spec["recurring"], set(), spec["args"][0], spec["args"][1]).duration}
    except Exception as e:  # noqa: BLE001
        return exc_name(e)


@oracle("C14")
def o_c14(spec, obs):
    import datetime as dt

    s, e = spec["args"]
    h1, m1 = [int(x) for x in s.split(":")]
    h2, m2 = [int(x) for x in e.split(":")]
    secs = (((h2 * 60 + m2) - (h1 * 60 + m1)) % 1440) * 60
    exp = "%d:%02d:%02d" % (secs // 3600, (secs // 60) % 60, 0)
    if obs.get("result") != exp:
        return True, "duration(%s,%s) = %r, expected %r" % (s, e, obs.get("result", obs.get("exception")), exp)
    return False, "ok"


# ------------------------------------------------------------------------------- C12
DAY_BIT = {"MONDAY": 0x02, "TUESDAY": 0x04, "WEDNESDAY": 0x08, "THURSDAY": 0x10, "FRIDAY": 0x20, "SATURDAY": 0x40, "SUNDAY": 0x80}


def _days_of(x):
    x = denorm(x)
    if isinstance(x, (set, list, tuple)):
        return list(x)
    return [x]


@oracle("C12enc")
def o_c12enc(spec, obs):
    arg = denorm(spec["args"][0])
    days = _days_of(spec["args"][0])
    legal = len(days) > 0 and len(set(days)) == len(days)
    if not legal:
        if "exception" in obs:
            return False, "rejected"
        return True, "empty/duplicate input %r accepted: %r" % (days, obs.get("result"))
    if "exception" in obs:
        return True, "legal input raised %s" % obs["exception"]
    exp = "%02x" % sum(DAY_BIT[d.name] for d in days)
    if obs["result"] != exp:
        return True, "mask %r expected %r" % (obs["result"], exp)
    return False, "ok"


@oracle("C12dec")
def o_c12dec(spec, obs):
    from aioswitcher.schedule import Days

    mask = spec["args"][0]
    if not (2 <= mask <= 254):
        if "exception" in obs:
            return False, "rejected"
        return True, "mask %d accepted" % mask
    if "exception" in obs:
        return True, "mask %d raised" % mask
    exp = {"set": sorted(["Days." + d.name for d in Days if mask & DAY_BIT[d.name]], key=repr)}
    if obs["result"] != exp:
        return True, "decode(%d) = %r expected %r" % (mask, obs["result"], exp)
    return False, "ok"


@kind("c12_roundtrip")
def k_c12rt(spec):
    from aioswitcher.schedule import tools

    days = denorm(spec["args"][0])
    try:
        back = tools.bit_summary_to_days(int(tools.weekdays_to_hexadecimal(days), 16))
        return {"result": norm(back)}
    except Exception as e:  # noqa: BLE001
        return exc_name(e)


@oracle("C12rt")
def o_c12rt(spec, obs):
    exp = norm(denorm(spec["args"][0]))
    if obs.get("result") != exp:
        return True, "decode(encode(S)) = %r, S = %r" % (obs.get("result", obs.get("exception")), exp)
    return False, "ok"


# ------------------------------------------------------------------------------- C19
C19_TYPES = {
    "MINI": ("030f", 1, "WATER_HEATER"), "POWER_PLUG": ("01a8", 1, "POWER_PLUG"), "TOUCH": ("030b", 1, "WATER_HEATER"),
    "V2_ESP": ("01a7", 1, "WATER_HEATER"), "V2_QCA": ("01a1", 1, "WATER_HEATER"), "V4": ("0317", 1, "WATER_HEATER"),
    "BREEZE": ("0e01", 2, "THERMOSTAT"), "RUNNER": ("0c01", 2, "SHUTTER"), "RUNNER_MINI": ("0c02", 2, "SHUTTER"),
}
C19_CLASSES = {"SwitcherPowerPlug": "POWER_PLUG", "SwitcherWaterHeater": "WATER_HEATER", "SwitcherThermostat": "THERMOSTAT",
               "SwitcherShutter": "SHUTTER"}


@kind("c19")
def k_c19(spec):
    import aioswitcher.device as dev
    import aioswitcher.api as api
    import aioswitcher.bridge as bridge

    dt = getattr(dev.DeviceType, spec["dtype"])
    out = {"hex_rep": dt.hex_rep, "protocol_type": dt.protocol_type, "category": dt.category.name,
           "udp": bridge.SWITCHER_DEVICE_TO_UDP_PORT.get(dt.category), "tcp": api.SWITCHER_DEVICE_TO_TCP_PORT.get(dt.category),
           "codes": sorted(d.hex_rep for d in dev.DeviceType)}
    if spec.get("cls"):
        common = [dt, dev.DeviceState.ON, "aabbcc", "18", "192.168.1.33", "12:A1:A2:1A:BC:1A", "name"]
        extras = {"SwitcherPowerPlug": [100, 0.5], "SwitcherWaterHeater": [100, 0.5, "00:00:00", "01:00:00"],
                  "SwitcherThermostat": [dev.ThermostatMode.COOL, 22.5, 24, dev.ThermostatFanLevel.LOW, dev.ThermostatSwing.OFF, "ELEC7022"],
                  "SwitcherShutter": [50, dev.ShutterDirection.SHUTTER_STOP]}
        extra = extras[spec["cls"]]
        if spec.get("before"):
            b = spec["before"]
            try:
                getattr(dev, b["cls"])(*([getattr(dev.DeviceType, b["dtype"])] + common[1:] + extras[b["cls"]]))
            except Exception:  # noqa: BLE001
                pass
        try:
            getattr(dev, spec["cls"])(*(common + extra))
            out["constructed"] = True
        except ValueError:
            out["constructed"] = False
        except Exception as e:  # noqa: BLE001
            out["constructed"] = "raised %s" % type(e).__name__
    return out


@oracle("C19")
def o_c19(spec, obs):
    code, proto, cat = C19_TYPES.get(spec["dtype"], (None, None, None))
    if (obs["hex_rep"], obs["protocol_type"], obs["category"]) != (code, proto, cat):
        return True, "type %s reports %r, statement says %r" % (spec["dtype"], (obs["hex_rep"], obs["protocol_type"], obs["category"]), (code, proto, cat))
    if len(set(obs["codes"])) != len(obs["codes"]):
        return True, "model codes not unique: %r" % obs["codes"]
    eu, et = {1: (20002, 9957), 2: (20003, 10000)}[proto]
    if (obs["udp"], obs["tcp"]) != (eu, et):
        return True, "ports of %s are %r, expected %r" % (spec["dtype"], (obs["udp"], obs["tcp"]), (eu, et))
    if spec.get("cls"):
        want = C19_CLASSES[spec["cls"]] == cat
        if obs.get("constructed") is not want:
            return True, "%s(%s) constructed=%r, expected %r" % (spec["cls"], spec["dtype"], obs.get("constructed"), want)
    return False, "ok"


# ------------------------------------------------------------------------------- datagrams (C05/C06/C07)
import warnings as _warnings  # noqa: E402
from spec import broadcast as SB  # noqa: E402


@kind("datagram")
def k_datagram(spec):
    import aioswitcher.bridge as bridge

    data = bytes.fromhex(spec["data"])
    got = []
    out = {}
    with _warnings.catch_warnings(record=True) as ws:
        _warnings.simplefilter("always")
        for prev in spec.get("before", []):
            try:
                bridge._parse_device_from_datagram(lambda dev: None, bytes.fromhex(prev))
            except Exception:  # noqa: BLE001
                pass
        try:
            for _k in range(int(spec.get("repeat", 1))):  # the same datagram arrives `repeat` times; everything made is recorded
                bridge._parse_device_from_datagram(got.append, data)
            out["exception"] = None
        except Exception as e:  # noqa: BLE001
            out["exception"] = type(e).__name__
            out["msg"] = str(e)[:200]
    out["devices"] = [norm(g) for g in got]
    out["warnings"] = len(ws)
    return out


def _iso(secs):
    return "%02d:%02d:%02d" % (secs // 3600, (secs // 60) % 60, secs % 60)


def expected_device_concrete(d, family):
    r = SB.decode(O, d, family)
    name, fam, cat = SB.MODELS[r["model"]]
    cls = {"WATER_HEATER": "SwitcherWaterHeater", "POWER_PLUG": "SwitcherPowerPlug", "THERMOSTAT": "SwitcherThermostat",
           "SHUTTER": "SwitcherShutter"}[cat]
    e = {"__class__": cls, "device_type": "DeviceType." + name, "device_id": bytes(r["id"]).hex(), "device_key": bytes(r["key"]).hex(),
         "ip_address": ".".join(str(x) for x in r["ip"]), "mac_address": ":".join("%02X" % b for b in r["mac"]),
         "name": bytes(r["name_field"]).decode().rstrip("\x00")}
    if family == "type1":
        on = r["on"]
        e["device_state"] = "DeviceState.ON" if on else "DeviceState.OFF"
        e["power_consumption"] = r["watts"] if on else 0
        e["electric_current"] = round(r["watts"] / 220.0, 1) if on else 0.0
        if cat == "WATER_HEATER":
            e["remaining_time"] = _iso(r["remaining_s"]) if on else "00:00:00"
            e["auto_shutdown"] = _iso(r["auto_s"])
    if family == "runner":
        e["position"] = r["position"]
        e["direction"] = "ShutterDirection." + SB.DIRECTIONS[r["direction"]]
    if family == "breeze":
        e["device_state"] = "DeviceState.ON" if r["on"] else "DeviceState.OFF"
        e["mode"] = "ThermostatMode." + SB.MODES[r["mode"]]
        e["fan_level"] = "ThermostatFanLevel." + SB.FANS[r["fan"]]
        e["swing"] = "ThermostatSwing." + ("ON" if r["swing"] == 1 else "OFF")
        e["temperature"] = r["temp10"] / 10
        e["target_temperature"] = r["target"]
        e["remote_id"] = bytes(r["remote"]).decode()
    return e


@oracle("C05")
def o_c05(spec, obs):
    d = bytes.fromhex(spec["data"])
    family = spec["family"]
    r = SB.decode(O, d, family)
    if len(d) != SB.FAMILY_LEN[family] or not SB.wellformed(O, d, family, r):
        return False, "datagram is not a well-formed broadcast of this family (outside C05)"
    if obs["exception"]:
        return True, "well-formed broadcast raised %s" % obs["exception"]
    if len(obs["devices"]) != 1:
        return True, "%d devices delivered" % len(obs["devices"])
    exp = expected_device_concrete(d, family)
    got = obs["devices"][0]
    for k, v in exp.items():
        if k == "electric_current" and _amps_ok(got.get(k), v, got.get("power_consumption")):
            continue
        if got.get(k) != v:
            return True, "field %s = %r, device encoded %r" % (k, got.get(k), v)
    return False, "ok"


def _amps_ok(got, exp, watts):
    """watts/220 to one decimal; at an exact tie (watts = 22k + 11) either neighbour"""
    if got == exp:
        return True
    if not isinstance(got, (int, float)) or watts is None:
        return False
    k = round(got * 10)
    return abs(k / 10 - got) < 1e-9 and abs(22 * k - watts) <= 11


@oracle("C06")
def o_c06(spec, obs):
    d = bytes.fromhex(spec["data"])
    gate = d[:2] == b"\xfe\xf0" and len(d) in (165, 168, 159)
    if not gate:
        if obs["exception"] or obs["devices"] or obs["warnings"]:
            return True, "non-broadcast (%d bytes) was not ignored silently: %r" % (len(d), {k: obs[k] for k in ("exception", "warnings")})
        return False, "ignored"
    model = d[74] * 256 + d[75]
    if model not in SB.MODELS:
        if obs["exception"] or obs["devices"] or obs["warnings"] != 1:
            return True, "unknown model %04x: exception=%r devices=%d warnings=%d" % (model, obs["exception"], len(obs["devices"]), obs["warnings"])
        return False, "unknown model warned"
    if not obs["exception"] and not obs["devices"] and not obs["warnings"]:
        return True, "genuine broadcast ignored"
    return False, "ok"


# ------------------------------------------------------------------------------- C08 / C09
from spec import replies as SR  # noqa: E402


@oracle("C08")
def o_c08(spec, obs):
    op = spec["op"]
    kind = {"get_state": "state1", "get_shutter_state": "shutter", "get_breeze_state": "thermostat"}[op]
    d = bytes.fromhex(spec["replies"][1])
    if len(d) < SR.MIN_LEN[kind]:
        return False, "reply shorter than the layout (outside C08)"
    r = SR.decode(O, d, kind)
    if not SR.wellformed(O, d, kind, r):
        return False, "reply not well-formed (outside C08)"
    if "exception" in obs:
        return True, "well-formed reply raised %s" % obs["exception"]
    got = obs["result"]
    if kind == "state1":
        exp = {"state": "DeviceState.ON" if r["state"] == 1 else "DeviceState.OFF", "time_left": _iso(r["left_s"]),
               "time_on": _iso(r["on_s"]), "auto_shutdown": _iso(r["auto_s"]), "power_consumption": r["watts"],
               "electric_current": round(r["watts"] / 220.0, 1)}
    elif kind == "shutter":
        exp = {"position": r["position"], "direction": "ShutterDirection." + SR.DIRECTIONS[r["direction"]]}
    else:
        exp = {"state": "DeviceState.OFF" if r["state"] == 0 else "DeviceState.ON",
               "mode": "ThermostatMode." + SR.MODES.get(r["mode"], "COOL"),
               "fan_level": "ThermostatFanLevel." + SR.FANS.get(r["fan"], "LOW"),
               "swing": "ThermostatSwing." + ("OFF" if r["swing"] == 0 else "ON"),
               "temperature": r["temp10"] / 10, "target_temperature": r["target"],
               "remote_id": bytes(r["remote"]).decode().rstrip("\x00")}
    for k, v in exp.items():
        if k == "electric_current" and _amps_ok(got.get(k), v, got.get("power_consumption")):
            continue
        if got.get(k) != v:
            return True, "field %s = %r, device reported %r" % (k, got.get(k), v)
    frames = [bytes.fromhex(f) for f in obs["frames"]]
    if len(frames) > 1 and frames[1][8:12] != bytes.fromhex(spec["replies"][0])[8:12]:
        return True, "session bytes in the command frame differ from login reply bytes 8..11"
    return False, "ok"


@kind("c08_login")
def k_c08_login(spec):
    from aioswitcher.api import messages

    out = {}
    for r in spec["replies"]:
        try:
            o = messages.SwitcherLoginResponse(bytes.fromhex(r))
            out = {"result": {"session_id": o.session_id, "successful": bool(o.successful)}}
        except Exception as e:  # noqa: BLE001
            out = exc_name(e)
    return out


@oracle("C08login")
def o_c08login(spec, obs):
    d = bytes.fromhex(spec["replies"][-1])
    if len(d) < 12:
        return False, "login reply shorter than 12 bytes (outside C08)"
    got = (obs.get("result") or {}).get("session_id")
    if got != d[8:12].hex():
        return True, "session id %r, login reply bytes 8..11 are %s" % (got if got is not None else obs.get("exception"), d[8:12].hex())
    return False, "ok"


@oracle("C09")
def o_c09(spec, obs):
    op = spec["op"]
    replies = [bytes.fromhex(r) for r in spec["replies"]]
    state_ops = ("get_state", "get_breeze_state", "get_shutter_state")
    if op in state_ops and "exception" in obs and obs["exception"] != "RuntimeError":
        return True, "%s raised %s (%s)" % (op, obs["exception"], obs.get("msg"))
    if len(replies[0]) == 0 and op in state_ops + ("stop", "set_position", "control_breeze_device"):
        if obs.get("exception") != "RuntimeError" or len(obs["frames"]) != 1:
            return True, "empty login reply: exception=%r, frames=%d" % (obs.get("exception"), len(obs["frames"]))
    if "result" in obs and isinstance(obs["result"], dict) and obs["result"].get("__class__") == "SwitcherBaseResponse":
        last = replies[len(obs["frames"]) - 1] if len(obs["frames"]) - 1 < len(replies) else b""
        # `successful` is a property: recompute from the object's reply and compare with what the caller sees
        succ = obs.get("successful")
        if succ is not None and succ != (len(last) > 0):
            return True, "successful=%r for a %d-byte reply" % (succ, len(last))
    return False, "ok"


# ------------------------------------------------------------------------------- sequences / interleavings (C03)
def _op_args(o):
    args = [denorm(a) for a in o["args"]]
    if o.get("remote") is not None:
        args = [build_remote(o["remote"])] + args
    return args


@kind("api_seq")
def k_api_seq(spec):
    """ops on one connection (mode seq) or one op per instance interleaved by a scripted scheduler (mode inter)"""
    api_mod = importlib.import_module("aioswitcher.api")
    ops = spec["ops"]
    devs = []
    out = {"frames": [], "results": []}
    real_open = api_mod.open_connection
    pending = []

    async def fake_open_connection(host=None, port=None, **kw):
        d = pending.pop(0)
        return FakeReader(d), FakeWriter(d)

    api_mod.open_connection = fake_open_connection
    clocks = [c for o in ops for c in (o.get("clock") or [])]
    env_spec = {"clock": sorted(clocks) if clocks else None, "zone": spec.get("zone")}
    try:
        with Env(env_spec):
            if spec["mode"] == "seq":
                dev = FakeDevice([bytes.fromhex(r) for o in ops for r in o["replies"]])
                pending.append(dev)
                o0 = ops[0]
                cls = api_mod.SwitcherType1Api if o0["api"] == 1 else api_mod.SwitcherType2Api
                api = cls("127.0.0.1", o0["dev_id"], o0["key"])

                async def go():
                    await api.connect()
                    marks = []
                    for o in ops:
                        n0 = len(dev.frames)
                        # a reply consumed by nobody would shift the script: align reads with this op's replies
                        base = sum(len(p["replies"]) for p in ops[:ops.index(o)])
                        dev.nreads = base
                        try:
                            r = await getattr(api, o["op"])(*_op_args(o))
                            out["results"].append(norm(r))
                        except Exception as e:  # noqa: BLE001
                            out["results"].append(exc_name(e))
                        marks.append([f.hex() for f in dev.frames[n0:]])
                    await api.disconnect()
                    return marks

                out["frames"] = asyncio.run(go())
            else:
                apis = []
                for o in ops:
                    d = FakeDevice([bytes.fromhex(r) for r in o["replies"]])
                    devs.append(d)
                    cls = api_mod.SwitcherType1Api if o["api"] == 1 else api_mod.SwitcherType2Api
                    apis.append(cls("127.0.0.1", o["dev_id"], o["key"]))

                async def go2():
                    for d, a in zip(devs, apis):
                        pending.append(d)
                        await a.connect()
                    coros = [getattr(a, o["op"])(*_op_args(o)) for a, o in zip(apis, ops)]
                    results = [None] * len(coros)
                    live = list(range(len(coros)))
                    sched = list(spec.get("schedule") or [])
                    # drive the coroutines by hand following the recorded schedule (awaits inside are sleep(0) yields)
                    while live:
                        k = live[sched.pop(0)] if (sched and len(live) > 1) else live[0]
                        try:
                            coros[k].send(None)
                        except StopIteration as si:
                            results[k] = norm(si.value)
                            live.remove(k)
                        except Exception as e:  # noqa: BLE001
                            results[k] = exc_name(e)
                            live.remove(k)
                    return results

                out["results"] = asyncio.run(go2())
                out["frames"] = [[f.hex() for f in d.frames] for d in devs]
    finally:
        api_mod.open_connection = real_open
    return out


@oracle("C03")
def o_c03(spec, obs):
    for i, (o, frames) in enumerate(zip(spec["ops"], obs["frames"])):
        fr = [bytes.fromhex(f) for f in frames]
        if not fr:
            return True, "op %d wrote nothing" % i
        kindn = "login1" if o["api"] == 1 else "login2"
        lg = fr[0]
        if len(lg) != SF.FRAME_LEN[kindn]:
            return True, "op %d: first frame is not a login frame" % i
        ts = int.from_bytes(lg[24:28], "little")
        exp = SF.frame_of(O, kindn, dict(ts=ts, key=bytes.fromhex(o["key"]), dev_id=bytes.fromhex(o["dev_id"])))
        if lg != exp:
            return True, "op %d: login frame differs from the login layout" % i
        clocks = o.get("clock") or []
        if clocks and not any(ts in (int(c), int(c) + 1) for c in clocks):
            return True, "op %d: timestamp %d is not a clock reading of this operation %r" % (i, ts, clocks)
        sess = bytes.fromhex(o["replies"][0])[8:12]
        for k, f in enumerate(fr[1:], 1):
            if f[8:12] != sess:
                return True, "op %d frame %d carries session %s, this login returned %s" % (i, k, f[8:12].hex(), sess.hex())
            if f[24:28] != lg[24:28]:
                return True, "op %d frame %d carries another timestamp than its login frame" % (i, k)
            if f[40:43] != bytes.fromhex(o["dev_id"]):
                return True, "op %d frame %d carries device id %s" % (i, k, f[40:43].hex())
        if "exception" not in (obs["results"][i] if isinstance(obs["results"][i], dict) else {}):
            lo, hi = (2, 4) if o["op"] == "control_breeze_device" else (2, 2)
            if not (lo <= len(fr) <= hi):
                return True, "op %d wrote %d frames" % (i, len(fr))
    return False, "ok"


# ------------------------------------------------------------------------------- C11 / C13
import re as _re  # noqa: E402


@kind("c11")
def k_c11(spec):
    from aioswitcher.schedule import tools

    out = {}
    two = spec.get("first_text") is not None
    with Env(dict(spec, clock=spec["clock"][:1] if two else spec["clock"])) as env:
        try:
            if two:
                try:
                    tools.time_to_hexadecimal_timestamp(spec["first_text"])
                except Exception:  # noqa: BLE001
                    pass
                env.traveller.move_to(float(spec["clock"][1]))
            enc = tools.time_to_hexadecimal_timestamp(spec["text"])
            out["enc"] = enc
            if spec["mode"] in ("roundtrip", "second"):
                out["dec"] = tools.hexadecimale_timestamp_to_localtime(enc.encode())
            # ground truth through zoneinfo, independent of the library and of libc
            import zoneinfo
            import datetime as dt

            z = zoneinfo.ZoneInfo(spec["zone"])
            v = int.from_bytes(bytes.fromhex(enc), "little") if len(enc) == 8 else None
            out["v"] = v
            if v is not None:
                out["v_local"] = dt.datetime.fromtimestamp(v, z).strftime("%Y-%m-%d %H:%M:%S")
                out["now_local_date"] = dt.datetime.fromtimestamp(spec["clock"][1 if two else 0], z).strftime("%Y-%m-%d")
        except Exception as e:  # noqa: BLE001
            out.update(exc_name(e))
    return out


@oracle("C11")
def o_c11(spec, obs):
    text = spec["text"]
    m = _re.fullmatch(r"(2[0-3]|[0-1]\d|\d):([0-5]\d|\d)", text.strip(" \t\n\r\x0b\x0c\x1c\x1d\x1e\x1f"))
    if spec["mode"] == "free":
        if not m and "exception" not in obs:
            return True, "malformed clock string %r accepted -> %r" % (text, obs.get("enc"))
        return False, "ok"
    if "exception" in obs:
        return True, "valid time %r raised %s" % (text, obs["exception"])
    h, mi = int(m.group(1)), int(m.group(2))
    want = "%s %02d:%02d:00" % (obs["now_local_date"], h, mi)
    if obs.get("v_local") != want:
        return True, "encode(%r) = %s = local %s, expected local %s in %s" % (text, obs["enc"], obs.get("v_local"), want, spec["zone"])
    if obs.get("dec") != "%02d:%02d" % (h, mi):
        return True, "decode(encode(%r)) = %r" % (text, obs.get("dec"))
    return False, "ok"


@kind("c13")
def k_c13(spec):
    from aioswitcher.schedule import tools, Days

    out = {}
    two = bool(spec.get("second"))
    with Env(dict(spec, clock=spec["clock"][:1] if two else spec["clock"])) as env:
        try:
            if two:
                tools.pretty_next_run(spec["start"], {Days[n] for n in spec["days"]})
                env.traveller.move_to(float(spec["clock"][1]))
            out["result"] = tools.pretty_next_run(spec["start"], {Days[n] for n in spec["days"]})
        except Exception as e:  # noqa: BLE001
            out.update(exc_name(e))
    return out


@oracle("C13")
def o_c13(spec, obs):
    import zoneinfo
    import datetime as dt

    names = ["MONDAY", "TUESDAY", "WEDNESDAY", "THURSDAY", "FRIDAY", "SATURDAY", "SUNDAY"]
    disp = ["Monday", "Tuesday", "Wednesday", "Thursday", "Friday", "Saturday", "Sunday"]
    start = spec["start"]
    days = [names.index(n) for n in spec["days"]]
    now = dt.datetime.fromtimestamp(spec["clock"][1 if spec.get("second") else 0], zoneinfo.ZoneInfo(spec["zone"]))
    h, m = [int(x) for x in start.split(":")]
    if not days:
        exp = "Due today at " + start
    else:
        wd = now.weekday()
        if wd in days and (h * 60 + m) > (now.hour * 60 + now.minute):
            exp = "Due today at " + start
        else:
            k = next(k for k in range(1, 8) if (wd + k) % 7 in days)
            exp = ("Due tomorrow at " + start) if k == 1 else ("Due next %s at %s" % (disp[(wd + k) % 7], start))
    if obs.get("result") != exp:
        return True, "at local %s (%s) with days %s: got %r, earliest run is %r" % (now.strftime("%a %Y-%m-%d %H:%M"), spec["zone"], spec["days"], obs.get("result", obs.get("exception")), exp)
    return False, "ok"


# ------------------------------------------------------------------------------- C10
def _sched_norm(s):
    return {"schedule_id": s.schedule_id, "recurring": s.recurring, "days": norm(s.days), "start_time": s.start_time,
            "end_time": s.end_time, "duration": s.duration, "display": s.display}


_orig_run_api_op = run_api_op


def run_api_op_sched(spec):
    out = _orig_run_api_op(spec)
    return out


@kind("c10_roundtrip")
def k_c10rt(spec):
    api_mod = importlib.import_module("aioswitcher.api")
    cr, ls = spec["create"], spec["list"]
    dev = FakeDevice([bytes.fromhex(r) for r in cr["replies"]])

    async def fake_open_connection(host=None, port=None, **kw):
        return FakeReader(dev), FakeWriter(dev)

    real_open = api_mod.open_connection
    api_mod.open_connection = fake_open_connection
    out = {}
    try:
        api = api_mod.SwitcherType1Api("127.0.0.1", cr["dev_id"], cr["key"])

        async def go():
            await api.connect()
            await api.create_schedule(*[denorm(a) for a in cr["args"]])
            frame = dev.frames[1]
            # the device lists the record back: slot id + the 11 emitted bytes + 8 arbitrary bytes, as scripted
            listed = bytes.fromhex(ls["replies"][1])
            reply = listed[:46] + frame[84:95] + listed[57:]
            dev.replies = dev.replies[:2] + [bytes.fromhex(ls["replies"][0]), reply]
            dev.nreads = 2
            r = await api.get_schedules()
            await api.disconnect()
            return r

        with Env({"clock": spec.get("clock"), "zone": spec.get("zone")}):
            try:
                r = asyncio.run(go())
                out["schedules"] = [_sched_norm(s) for s in r.schedules]
            except Exception as e:  # noqa: BLE001
                out.update(exc_name(e))
    finally:
        api_mod.open_connection = real_open
    out["args"] = cr["args"]
    return out


@oracle("C10")
def o_c10(spec, obs):
    import zoneinfo
    import datetime as dt

    if spec["kind"] == "c10_roundtrip":
        args = [denorm(a) for a in spec["create"]["args"]]
        if "exception" in obs:
            return True, "round trip raised %s" % obs["exception"]
        if len(obs["schedules"]) != 1:
            return True, "%d schedules listed" % len(obs["schedules"])
        s = obs["schedules"][0]
        want_days = norm(set(args[2]))
        if (s["start_time"], s["end_time"], s["days"]) != (args[0], args[1], want_days):
            return True, "created (%s, %s, %s) read back as (%s, %s, %s) in %s" % (args[0], args[1], want_days, s["start_time"], s["end_time"], s["days"], spec["zone"])
        return False, "ok"
    reply = bytes.fromhex(spec["replies"][1])
    data = reply[45:-4]
    z = zoneinfo.ZoneInfo(spec["zone"])
    if len(data) % 16:
        return False, "not whole records (outside C10)"
    recs = [data[i:i + 16] for i in range(0, len(data), 16)]
    if "exception" in obs:
        return True, "whole records raised %s (%s)" % (obs["exception"], obs.get("msg"))
    got = {s["schedule_id"]: s for s in obs.get("schedules", [])}
    if len(got) != len(obs.get("schedules", [])):
        return True, "duplicate ids in the parsed set"
    if set(got) != {str(r[0]) for r in recs}:
        return True, "ids %r, records carry %r" % (sorted(got), sorted({str(r[0]) for r in recs}))
    for sid, s in got.items():
        ok = False
        for r in recs:
            if str(r[0]) != sid:
                continue
            mask = r[2]
            st = dt.datetime.fromtimestamp(int.from_bytes(r[4:8], "little"), z)
            en = dt.datetime.fromtimestamp(int.from_bytes(r[8:12], "little"), z)
            days = {"set": sorted(["Days." + n for n, b in DAY_BIT.items() if mask & b], key=repr)}
            secs = (((en.hour * 60 + en.minute) - (st.hour * 60 + st.minute)) % 1440) * 60
            exp = {"recurring": mask != 0, "days": days, "start_time": st.strftime("%H:%M"), "end_time": en.strftime("%H:%M"),
                   "duration": "%d:%02d:00" % (secs // 3600, (secs // 60) % 60)}
            if all(s[k] == v for k, v in exp.items()):
                ok = True
        if not ok:
            return True, "schedule %s parsed as %r which matches no record with that id" % (sid, s)
    return False, "ok"


# ------------------------------------------------------------------------------- life cycles on the real loop (C17 / C18 / C07)
import socket as _socket  # noqa: E402


def _free_udp_ports(n):
    socks, ports = [], []
    for _ in range(n):
        s = _socket.socket(_socket.AF_INET, _socket.SOCK_DGRAM)
        s.bind(("0.0.0.0", 0))
        socks.append(s)
        ports.append(s.getsockname()[1])
    for s in socks:
        s.close()
    return ports


def _bindable(port):
    s = _socket.socket(_socket.AF_INET, _socket.SOCK_DGRAM)
    try:
        s.bind(("0.0.0.0", port))
        return True
    except OSError:
        return False
    finally:
        s.close()


def _type1_datagram():
    d = bytearray(165)
    d[0:2] = b"\xfe\xf0"
    d[18:21] = b"\xaa\xbb\xcc"
    d[40] = 0x18
    d[42:46] = b"Boil"
    d[74:76] = bytes.fromhex("030b")
    d[76:80] = bytes([192, 168, 1, 33])
    d[80:86] = bytes.fromhex("12a1a21abc1a")
    d[133] = 1
    d[135:137] = (2600).to_bytes(2, "little")
    d[147:151] = (3000).to_bytes(4, "little")
    d[155:159] = (7200).to_bytes(4, "little")
    return bytes(d)


@kind("bridge_seq")
def k_bridge_seq(spec):
    from aioswitcher.bridge import SwitcherBridge

    n = int(spec["ports"].split(":")[1])
    real_ports = _free_udp_ports(n)
    model_ports = []
    for step in spec["trace"]:
        if step[1] is not None and step[1] not in model_ports:
            model_ports.append(step[1])
    # configured ports in model order: the harness uses a fixed list, map by position
    cfg = spec.get("model_ports") or sorted(set(model_ports)) or []

    async def go(tight):
        """tight=None: after every action the loop settles (deliveries done) before the next one.  tight=k: a broadcast is
        followed by exactly k bare loop cycles and the next action starts at once - the schedules in which a delivery that the
        bridge has deferred (call_soon, a task) is still pending when stop() is called"""
        steps_out = []
        log = []
        br = SwitcherBridge(lambda dev: log.append(dev), list(real_ports))
        other = SwitcherBridge(lambda dev: None, list(real_ports))
        outsiders = {}
        mapping = {}

        def real(p):
            if p not in mapping:
                mapping[p] = real_ports[len(mapping)]
            return mapping[p]

        # keep the model's port order: ports are named in the order of the harness list
        for i, p in enumerate(spec.get("model_port_list", [])):
            mapping[p] = real_ports[i]
        client = _socket.socket(_socket.AF_INET, _socket.SOCK_DGRAM)
        owned = set()
        trace = spec["trace"]
        for idx, (kindn, port, _exc) in enumerate(trace):
            o = {"action": kindn, "port": port, "raised": None}
            before_owned = set(owned)
            nlog = len(log)
            hurry = False
            try:
                if kindn == "start":
                    await br.start()
                elif kindn == "enter":
                    await br.__aenter__()
                elif kindn == "stop":
                    await br.stop()
                elif kindn == "exit":
                    await br.__aexit__(None, None, None)
                elif kindn == "send":
                    client.sendto(_type1_datagram(), ("127.0.0.1", real(port)))
                    if tight is not None and idx + 1 < len(trace) and trace[idx + 1][0] in ("stop", "exit"):
                        hurry = True
                        for _ in range(tight):
                            await asyncio.sleep(0)
                    else:
                        await asyncio.sleep(0.05)
                elif kindn == "occupy":
                    s = _socket.socket(_socket.AF_INET, _socket.SOCK_DGRAM)
                    s.bind(("0.0.0.0", real(port)))
                    outsiders[port] = s
                elif kindn == "release":
                    outsiders.pop(port).close()
                elif kindn == "cycle":
                    await asyncio.sleep(0.01)
                elif kindn == "stop_other":
                    await other.stop()
            except Exception as e:  # noqa: BLE001
                o["raised"] = type(e).__name__
            o["callbacks_during"] = len(log) - nlog
            if hurry:
                o["hurried"] = True
                o["callbacks"] = len(log) - nlog
                o["bridge_listening"] = sorted(real_ports.index(p) for p in owned)
                o["new_listening"] = []
                o["is_running"] = br.is_running
                steps_out.append(o)
                continue
            await asyncio.sleep(0)
            await asyncio.sleep(0.01 if tight is None else 0.05)
            # which configured ports are held by the bridge now: not bindable and not held by an outsider
            held_by_outsider = {real(p) for p in outsiders}
            owned = {p for p in real_ports if p not in held_by_outsider and not _bindable(p)}
            o["bridge_listening"] = sorted(real_ports.index(p) for p in owned)
            o["new_listening"] = sorted(real_ports.index(p) for p in owned - before_owned)
            o["is_running"] = br.is_running
            o["callbacks"] = len(log) - nlog
            o["callbacks_after_return"] = o["callbacks"] - o["callbacks_during"]
            steps_out.append(o)
        client.close()
        for s in outsiders.values():
            s.close()
        await br.stop()
        return steps_out

    trace = spec["trace"]
    hurried = any(a[0] == "send" and i + 1 < len(trace) and trace[i + 1][0] in ("stop", "exit") for i, a in enumerate(trace))
    out = {"steps": asyncio.run(go(None)), "nports": n}
    if hurried:
        out["tight"] = {}
        for k in range(0, 6):
            real_ports = _free_udp_ports(n)
            out["tight"][str(k)] = asyncio.run(go(k))
    return out


def _c17_callbacks(steps):
    """callbacks that reach the user although the bridge is not listening: after stop has returned, or for a port it does not hold"""
    listening = set()
    for o in steps:
        k = o["action"]
        if k in ("stop", "exit") and o.get("callbacks_after_return", 0) > 0:
            return "%d callback(s) after %s had returned" % (o["callbacks_after_return"], k)
        if k not in ("start", "enter", "stop", "exit") and not listening and o.get("callbacks", 0) > 0:
            return "%d callback(s) during '%s' while the bridge was not listening" % (o["callbacks"], k)
        listening = set(o["bridge_listening"])
    return None


@oracle("C17")
def o_c17(spec, obs):
    n = obs["nports"]
    for name, steps in [("settled", obs["steps"])] + [("%s bare loop cycles after the broadcast" % k, st) for k, st in obs.get("tight", {}).items()]:
        why = _c17_callbacks(steps)
        if why:
            return True, "%s (schedule: %s)" % (why, name)
    listening = set()
    for o in obs["steps"]:
        k = o["action"]
        now = set(o["bridge_listening"])
        if k in ("start", "enter"):
            if o["raised"] is None:
                if len(now) != n or o["is_running"] is not True:
                    return True, "start returned: listening on %d of %d ports, is_running=%r" % (len(now), n, o["is_running"])
            elif o["new_listening"]:
                return True, "start raised %s and left %d port(s) listening that were not before (is_running=%r)" % (o["raised"], len(o["new_listening"]), o["is_running"])
        if k in ("stop", "exit"):
            if o["raised"] or now or o["is_running"] is not False:
                return True, "stop: raised=%r, still listening on %d ports, is_running=%r" % (o["raised"], len(now), o["is_running"])
        if k == "send":
            pass
        if k == "stop_other" and (o["raised"] or now != listening):
            return True, "stopping another bridge object changed this bridge's listening ports: %s -> %s" % (sorted(listening), sorted(now))
        if o["raised"] is None and k in ("start", "stop", "enter", "exit", "stop_other") and bool(o["is_running"]) != (len(now) == n):
            return True, "is_running=%r while listening on %d of %d ports" % (o["is_running"], len(now), n)
        listening = now
    return False, "ok"


@kind("api_life")
def k_api_life(spec):
    api_mod = importlib.import_module("aioswitcher.api")
    port = 9957 if spec["api"] == 1 else 10000
    out = {"steps": []}

    async def go():
        state = {"mode": "ok", "conns": [], "eof": []}

        async def handle(reader, writer):
            idx = len(state["conns"])
            state["conns"].append(writer)
            state["eof"].append(False)
            nframe = 0
            try:
                while True:
                    data = await reader.read(2048)
                    if not data:
                        state["eof"][idx] = True
                        break
                    nframe += 1
                    login = data[4:7] in (b"\x02\x32\xa1", b"\x03\x05\xa6")
                    if login:
                        writer.write(bytes(20))
                    else:
                        writer.write(bytes(107) if state["mode"] == "ok" else bytes(5))
                    await writer.drain()
            finally:
                writer.close()

        server = None

        async def ensure_server(up):
            nonlocal server
            if up and server is None:
                server = await asyncio.start_server(handle, "127.0.0.1", port)
            if not up and server is not None:
                # stop listening (connections that are already open stay open; wait_closed would wait for them)
                server.close()
                await asyncio.sleep(0.02)
                server = None

        cls = api_mod.SwitcherType1Api if spec["api"] == 1 else api_mod.SwitcherType2Api
        api = cls("127.0.0.1", "aabbcc", "18")
        for kindn, _exc in spec["trace"]:
            o = {"action": kindn, "raised": None}
            nconn = len(state["conns"])
            inside = []
            try:
                if kindn == "connect":
                    await ensure_server(True)
                    await api.connect()
                elif kindn == "refused_connect":
                    await ensure_server(False)
                    await api.connect()
                elif kindn in ("op", "failing_op"):
                    state["mode"] = "ok" if kindn == "op" else "garbage"
                    if spec["api"] == 1:
                        await api.get_state()
                    else:
                        await api.get_shutter_state()
                elif kindn == "disconnect":
                    await api.disconnect()
                else:
                    await ensure_server(kindn != "ctx_refused")
                    async with api as a_:
                        inside.append([a_ is api, api.connected])
                        if kindn == "ctx_body_raises":
                            raise KeyError("body")
                        if kindn == "ctx_body_runtime":
                            raise RuntimeError("body")
                        if kindn == "ctx_body_connerr":
                            raise ConnectionResetError("body")
                        if kindn == "ctx_body_failing_op":
                            state["mode"] = "garbage"
                            if spec["api"] == 1:
                                await api.get_state()
                            else:
                                await api.get_shutter_state()
            except Exception as e:  # noqa: BLE001
                o["raised"] = type(e).__name__
            await asyncio.sleep(0.05)
            o["connected"] = api.connected
            o["new_conns"] = len(state["conns"]) - nconn
            o["open_conns"] = sum(1 for e in state["eof"] if not e)
            o["inside"] = inside
            out["steps"].append(o)
        await api.disconnect()
        await ensure_server(False)

    asyncio.run(go())
    return out


@oracle("C18")
def o_c18(spec, obs):
    connected = False
    for o in obs["steps"]:
        k = o["action"]
        if k == "connect":
            if o["raised"]:
                return True, "connect raised %s" % o["raised"]
            connected = True
        elif k == "refused_connect":
            if o["raised"] != "ConnectionRefusedError" or o["new_conns"]:
                return True, "refused connect: raised=%r new connections=%d" % (o["raised"], o["new_conns"])
        elif k == "op":
            if o["raised"]:
                return True, "operation raised %s" % o["raised"]
        elif k == "failing_op":
            if o["raised"] != "RuntimeError":
                return True, "failing operation raised %r" % o["raised"]
        elif k == "disconnect":
            if o["raised"]:
                return True, "disconnect raised %s" % o["raised"]
            connected = False
        else:
            if k == "ctx_refused":
                if o["raised"] != "ConnectionRefusedError":
                    return True, "refused context raised %r" % o["raised"]
            else:
                if k == "ctx_ok" and o["raised"]:
                    return True, "context raised %s" % o["raised"]
                want = {"ctx_body_raises": "KeyError", "ctx_body_runtime": "RuntimeError", "ctx_body_connerr": "ConnectionResetError",
                        "ctx_body_failing_op": "RuntimeError"}.get(k)
                if want and o["raised"] != want:
                    return True, "body exception became %r" % o["raised"]
                if o["inside"] != [[True, True]]:
                    return True, "inside context: %r" % o["inside"]
            connected = False
        if o["connected"] is not connected:
            return True, "after %s: connected=%r expected %r" % (k, o["connected"], connected)
        if o["open_conns"] != (1 if connected else 0):
            return True, "after %s: device sees %d open connections, expected %d" % (k, o["open_conns"], 1 if connected else 0)
    return False, "ok"


@kind("bridge_dgrams")
def k_bridge_dgrams(spec):
    from aioswitcher.bridge import SwitcherBridge

    ports = _free_udp_ports(spec["nports"])
    out = {"devices": [], "loop_errors": 0}

    async def go():
        log = []
        rb = list(spec["raise"])

        def on_device(d):
            k = len(log)
            log.append(d)
            if k < len(rb) and rb[k]:
                raise RuntimeError("user callback failed")

        loop = asyncio.get_running_loop()
        errs = []
        loop.set_exception_handler(lambda lp, ctx: errs.append(ctx))
        br = SwitcherBridge(on_device, ports)
        await br.start()
        client = _socket.socket(_socket.AF_INET, _socket.SOCK_DGRAM)
        with _warnings.catch_warnings(record=True):
            _warnings.simplefilter("always")
            for g in spec["dgrams"]:
                client.sendto(bytes.fromhex(g["data"]), ("127.0.0.1", ports[g["port"]]))
                await asyncio.sleep(0.03)
        client.close()
        await br.stop()
        await asyncio.sleep(0.01)
        out["devices"] = [norm(d) for d in log]
        out["loop_errors"] = len(errs)

    asyncio.run(go())
    return out


@oracle("C07")
def o_c07(spec, obs):
    exp = []
    for g in spec["dgrams"]:
        d = bytes.fromhex(g["data"])
        fam = g.get("family")
        if fam and len(d) == SB.FAMILY_LEN[fam] and SB.wellformed(O, d, fam, SB.decode(O, d, fam)):
            exp.append(expected_device_concrete(d, fam))
    got = obs["devices"]
    if len(got) != len(exp):
        return True, "%d callbacks for %d valid broadcasts" % (len(got), len(exp))
    for i, (g, e) in enumerate(zip(got, exp)):
        for k, v in e.items():
            if g.get(k) != v:
                return True, "delivery %d: field %s = %r, expected %r (order or content)" % (i, k, g.get(k), v)
    return False, "ok"


# ------------------------------------------------------------------------------- C16
@oracle("C16")
def o_c16(spec, obs):
    """concrete oracle: frames decoded against the reference layout, merged values recomputed from the scripted state reply"""
    case = spec.get("case", {})
    given = case.get("given", [1, 1, 1, 1, 1])
    sep, upd, fault = bool(case.get("separated")), bool(case.get("update")), case.get("fault")
    frames = [bytes.fromhex(f) for f in obs["frames"]]
    args = [denorm(a) for a in spec["args"]]
    state, mode, target, fan, swing, _u = args
    s, m_, t, f, w = given
    actionable = bool(s or m_ or t or f or (w and not sep))
    swing_cmd = bool(sep and w and not upd)
    raised = obs.get("exception")
    if fault == "login":
        return (raised != "RuntimeError" or len(frames) != 1), "empty login reply: %r, %d frames" % (raised, len(frames))
    if not actionable and not swing_cmd:
        return (raised != "RuntimeError" or len(frames) != 1), "nothing actionable: %r, %d frames" % (raised, len(frames))
    if fault and obs.get("successful") is True:
        replies = [bytes.fromhex(r) for r in spec["replies"]]
        used = replies[:len(frames)]
        if any(len(r) == 0 for r in used):
            return True, "an empty reply was reported as success"
    if fault:
        return False, "fault handled"
    if raised:
        return True, "control raised %s: %s" % (raised, obs.get("msg"))
    st = bytes.fromhex(spec["replies"][1]) if actionable else bytes(100)
    r = SR.decode(O, st, "thermostat")
    want = {
        "state": (1 if state.name == "ON" else 0) if s else (0 if r["state"] == 0 else 1),
        "mode": {"AUTO": 1, "DRY": 2, "FAN": 3, "COOL": 4, "HEAT": 5}[mode.name] if m_ else r["mode"],
        "target": target if t else r["target"],
        "fan": {"AUTO": 0, "LOW": 1, "MEDIUM": 2, "HIGH": 3}[fan.name] if f else r["fan"],
        "swing": 0 if sep else ((1 if swing.name == "ON" else 0) if w else (0 if r["swing"] == 0 else 1)),
    }
    exp_frames = 1 + (2 if actionable else 0) + (1 if swing_cmd else 0)
    if len(frames) != exp_frames:
        return True, "%d frames written, expected %d" % (len(frames), exp_frames)
    if actionable and upd:
        cmd = frames[2]
        a = dict(session=bytes.fromhex(spec["replies"][0])[8:12], ts=int.from_bytes(cmd[24:28], "little"), dev_id=bytes.fromhex(spec["dev_id"]),
                 key=bytes.fromhex(spec["key"]), state=want["state"], mode=want["mode"], target=want["target"], fan=want["fan"], swing=want["swing"])
        exp = SO.expected_frame(O, "breeze_update", "breeze_update", a)
        if cmd != exp:
            return True, "status frame %s differs from the merged values %r" % (cmd[79:90].hex(), want)
    if actionable and not upd:
        # the real remote used in the replay carries the same text under every key: check the envelope of the IR frame
        cmd = frames[2]
        text = cmd[87:-4]
        if cmd[79:81] != b"\\x37\\x01" or int.from_bytes(cmd[81:83], "little") != 4 + len(text) or cmd[83:87] != bytes(4):
            return True, "IR frame payload header %s does not describe a %d byte text" % (cmd[79:87].hex(), len(text))
    return False, "ok"


# ------------------------------------------------------------------------------- C15
C15_MODE = {"AUTO": "aa", "DRY": "ad", "FAN": "aw", "COOL": "ar", "HEAT": "ah"}
C15_FAN = {"AUTO": "f0", "LOW": "f1", "MEDIUM": "f2", "HIGH": "f3"}


@kind("c15")
def k_c15(spec):
    import aioswitcher.device as dev
    from aioswitcher.api.remotes import SwitcherBreezeRemote

    case = spec["case"]
    out = {}
    try:
        if spec.get("other") and case.get("kind") == "build":
            try:
                SwitcherBreezeRemote(spec["other"]["ir_set"]).build_command(
                    getattr(dev.DeviceState, case["state"]), getattr(dev.ThermostatMode, case["mode"]), spec["other"]["target"],
                    getattr(dev.ThermostatFanLevel, case["fan"]), getattr(dev.ThermostatSwing, case["swing"]),
                    None if case["prev"] is None else getattr(dev.DeviceState, case["prev"]))
            except Exception:  # noqa: BLE001
                pass
        R = SwitcherBreezeRemote(spec["ir_set"])
        out["caps"] = {"modes": sorted(m.name for m in R.supported_modes), "min": R.min_temperature, "max": R.max_temperature,
                       "toggle": R.on_off_type, "separated": R.separated_swing_command, "id": R.remote_id}
        if case.get("kind") == "build":
            cmd = R.build_command(getattr(dev.DeviceState, case["state"]), getattr(dev.ThermostatMode, case["mode"]), spec["target"],
                                  getattr(dev.ThermostatFanLevel, case["fan"]), getattr(dev.ThermostatSwing, case["swing"]),
                                  None if case["prev"] is None else getattr(dev.DeviceState, case["prev"]))
            out["command"], out["length"] = cmd.command, cmd.length
        elif case.get("kind") == "swing":
            cmd = R.build_swing_command(getattr(dev.ThermostatSwing, case["swing"]))
            out["command"], out["length"] = cmd.command, cmd.length
    except Exception as e:  # noqa: BLE001
        out.update(exc_name(e))
    return out


def _c15_expected_key(case, ir_set, target):
    waves = {w["Key"]: w for w in ir_set["IRWaveList"]}
    temps = [int(k[2:4]) for k in waves if k[2:4].isdigit()]
    tmin, tmax = (min(temps), max(temps)) if temps else (100, -100)
    T = tmax if target > tmax else (tmin if target < tmin else target)
    toggle = ir_set["OnOffType"] == 1
    if not toggle and case["state"] == "OFF":
        cands = ["off"]
    else:
        pre = "on_" if (toggle and case["prev"] is not None and case["prev"] != case["state"]) else ""
        b = C15_MODE[case["mode"]] + (str(T) if case["mode"] in ("COOL", "HEAT") else "")
        full = pre + b + "_" + C15_FAN[case["fan"]] + ("_d1" if case["swing"] == "ON" else "")
        cands = [full, pre + b + "_" + C15_FAN[case["fan"]], pre + b]
    for k in cands:
        if k in waves:
            return k, waves[k]
    return None, None


@oracle("C15")
def o_c15(spec, obs):
    case = spec["case"]
    if case["kind"] == "swing":
        key = "FUN_d0" if case["swing"] == "OFF" else "FUN_d1"
        w = {x["Key"]: x for x in spec["ir_set"]["IRWaveList"]}.get(key)
        if w is None:
            return (obs.get("exception") != "RuntimeError"), "missing swing key: %r" % obs.get("exception")
    else:
        sup = sorted({m for m, c in C15_MODE.items() if any(x["Key"][0:2] == c for x in spec["ir_set"]["IRWaveList"])})
        if case["mode"] not in sup:
            if obs.get("exception") != "RuntimeError":
                return True, "unsupported mode %s not refused: %r" % (case["mode"], obs.get("exception", obs.get("command")))
            names = sorted(x.strip() for x in obs.get("msg", "").split("are:")[-1].split(",") if x.strip())
            if names != sorted(m.lower() for m in sup):
                return True, "error names %r, supported are %r" % (names, sup)
            return False, "ok"
        key, w = _c15_expected_key(case, spec["ir_set"], spec["target"])
        if key is None:
            return False, "no candidate key present: the statement is silent"
    text = (w["Para"] + "|" + w["HexCode"]).encode()
    exp_cmd = "00000000" + text.hex()
    exp_len = (4 + len(text)).to_bytes(2, "little").hex()
    if obs.get("command") != exp_cmd:
        return True, "command is not the code stored under %r (got %r...)" % (key, str(obs.get("command", obs.get("exception")))[:60])
    if obs.get("length") != exp_len:
        return True, "length field %r for a %d byte payload, expected %r" % (obs.get("length"), 4 + len(text), exp_len)
    return False, "ok"


@oracle("C15cap")
def o_c15cap(spec, obs):
    keys = [w["Key"] for w in spec["ir_set"]["IRWaveList"]]
    inv = {v: k for k, v in C15_MODE.items()}
    modes = sorted({inv[k[0:2]] for k in keys if k[0:2] in inv})
    temps = [int(k[2:4]) for k in keys if k[2:4].isdigit()]
    caps = obs.get("caps")
    if caps is None:
        return True, "construction raised %s" % obs.get("exception")
    if caps["modes"] != modes:
        return True, "supported modes %r, set holds %r" % (caps["modes"], modes)
    if temps and (caps["min"], caps["max"]) != (min(temps), max(temps)):
        return True, "range %r, set holds %r" % ((caps["min"], caps["max"]), (min(temps), max(temps)))
    if caps["toggle"] is not (spec["ir_set"]["OnOffType"] == 1):
        return True, "toggle flag"
    if caps["separated"] is not (spec["ir_set"]["IRSetID"] in ("ELEC7022", "ZM079055", "ZM079065", "ZM079049")):
        return True, "separate swing flag"
    return False, "ok"


@oracle("C15mgr")
def o_c15mgr(spec, obs):
    return True, "get_remote cache/load (reported by the in-process check)"


@oracle("C09seq")
def o_c09seq(spec, obs):
    """last operation of the sequence had an empty login reply: RuntimeError and only the login frame"""
    res, frames = obs["results"][-1], obs["frames"][-1]
    exc = res.get("exception") if isinstance(res, dict) else None
    if exc != "RuntimeError" or len(frames) != 1:
        return True, "after a good exchange, an empty login reply gave %r and %d frames" % (exc or "a result", len(frames))
    return False, "ok"
