"""Replay kinds and concrete oracles (imported by replay.py; runs under /venv/bin/python)."""
import binascii

from replay_core import oracle, kind, norm, denorm, exc_name, Env, O, SF  # noqa: F401


# ------------------------------------------------------------------------------- C04
@oracle("C04")
def o_c04(spec, obs):
    s = denorm(spec["args"][0])
    try:
        ok_hex = all(c in "0123456789abcdefABCDEF" for c in s) and len(s) % 2 == 0
    except TypeError:
        ok_hex = False
    if not ok_hex:
        if "exception" in obs:
            return False, "invalid hex raises"
        return True, "invalid hex input %r produced output %r" % (s, obs.get("result"))
    if "exception" in obs:
        return True, "valid hex input raised %s" % obs["exception"]
    body = bytes.fromhex(s)
    exp = s + SF.signature(O, body).hex()
    if obs["result"] != exp:
        return True, "signature mismatch: got %r expected %r" % (obs["result"], exp)
    return False, "ok"


# ------------------------------------------------------------------------------- fake device / api ops
import asyncio  # noqa: E402
import importlib  # noqa: E402

from spec import opspec as SO  # noqa: E402


class FakeReader:
    def __init__(self, dev):
        self.dev = dev

    async def read(self, n=-1):
        await asyncio.sleep(0)
        k = self.dev.nreads
        self.dev.nreads += 1
        if k < len(self.dev.replies):
            r = self.dev.replies[k]
        else:
            r = b""
        return r[:n] if n and n > 0 else r


class FakeWriter:
    def __init__(self, dev):
        self.dev = dev

    def write(self, data):
        self.dev.frames.append(bytes(data))

    async def drain(self):
        await asyncio.sleep(0)

    def close(self):
        self.dev.closed += 1

    async def wait_closed(self):
        await asyncio.sleep(0)

    def is_closing(self):
        return self.dev.closed > 0


class FakeDevice:
    def __init__(self, replies):
        self.replies = replies
        self.frames = []
        self.nreads = 0
        self.closed = 0
        self.opened = 0


def build_remote(rspec):
    """remote for control_breeze_device replays: a real SwitcherBreezeRemote built from an IR set"""
    from aioswitcher.api.remotes import SwitcherBreezeRemote

    return SwitcherBreezeRemote(rspec["ir_set"])


def run_api_op(spec):
    api_mod = importlib.import_module("aioswitcher.api")
    dev = FakeDevice([bytes.fromhex(r) for r in spec["replies"]])

    async def fake_open_connection(host=None, port=None, **kw):
        dev.opened += 1
        return FakeReader(dev), FakeWriter(dev)

    real_open = api_mod.open_connection
    api_mod.open_connection = fake_open_connection
    try:
        cls = api_mod.SwitcherType1Api if spec["api"] == 1 else api_mod.SwitcherType2Api
        api = cls("127.0.0.1", spec["dev_id"], spec["key"])
        args = [denorm(a) for a in spec["args"]]
        kwargs = {k: denorm(v) for k, v in spec.get("kwargs", {}).items()}
        if spec.get("remote") is not None:
            args = [build_remote(spec["remote"])] + args

        async def go():
            await api.connect()
            try:
                return await getattr(api, spec["op"])(*args, **kwargs)
            finally:
                await api.disconnect()

        with Env(spec) as env:
            try:
                res = asyncio.run(go())
                out = {"result": norm(res)}
            except Exception as e:  # noqa: BLE001
                out = exc_name(e)
    finally:
        api_mod.open_connection = real_open
    out["frames"] = [f.hex() for f in dev.frames]
    return out


kind("api_op")(run_api_op)


def _abstract_args(spec, frame):
    """abstract argument record (spec.opspec) from the concrete replay spec + the command frame"""
    op = spec["op"]
    a = {
        "session": bytes.fromhex(spec["replies"][0])[8:12],
        "dev_id": bytes.fromhex(spec["dev_id"]),
        "key": bytes.fromhex(spec["key"]),
        "ts": int.from_bytes(frame[24:28], "little") if frame is not None and len(frame) >= 28 else 0,
    }
    args = [denorm(x) for x in spec["args"]]
    if op == "control_device":
        a["on"] = 1 if args[0].name == "ON" else 0
        a["minutes"] = args[1]
    elif op == "set_auto_shutdown":
        a["secs"] = int(args[0].total_seconds())
    elif op == "set_device_name":
        a["name_bytes"] = args[0].encode()
        a["name_chars"] = len(args[0])
    elif op == "delete_schedule":
        a["slot"] = int(args[0]) if args[0].isdigit() else -1
    elif op == "set_position":
        a["position"] = args[0]
    return a


@oracle("C01")
def o_c01(spec, obs):
    """every written frame: magic, LE16 total length, terminator, signature"""
    if len(bytes.fromhex(spec["replies"][0])) < 12:
        return False, "login reply carries no session id (outside the statement)"
    for i, fh in enumerate(obs["frames"]):
        f = bytes.fromhex(fh)
        conds = SF.envelope_ok(O, f)
        for name, ok in conds.items():
            if not ok:
                return True, "frame %d (%d bytes) fails %s: header bytes 2..3 = %s" % (i, len(f), name, f[2:4].hex())
    return False, "all %d frames self-consistent" % len(obs["frames"])


@oracle("C02")
def o_c02(spec, obs):
    op = spec["op"]
    frames = [bytes.fromhex(f) for f in obs["frames"]]
    cmd = frames[1] if len(frames) > 1 else None
    a = _abstract_args(spec, cmd)
    acc = SO.accepted(O, op, a)
    raised = "exception" in obs
    if SO.must_reject(O, op, a):
        if raised and len(frames) <= 1:
            return False, "rejected argument raised, no command frame"
        return True, "argument outside the accepted domain did not raise cleanly (raised=%s, frames=%d)" % (raised, len(frames))
    if not acc:
        return False, "argument outside the documented domain: the statement is silent"
    if cmd is None:
        return True, "accepted arguments but no command frame was written (%s)" % (obs.get("exception"),)
    exp = SO.expected_frame(O, SO.command_kind(op), op, a)
    if cmd != exp:
        d = [i for i in range(min(len(cmd), len(exp))) if cmd[i] != exp[i]]
        return True, "command frame differs from the reference layout: len %d vs %d, first differing offsets %s" % (len(cmd), len(exp), d[:6])
    return False, "ok"


# ------------------------------------------------------------------------------- C14
@oracle("C14")
def o_c14(spec, obs):
    import datetime as dt

    s, e = spec["args"]
    h1, m1 = [int(x) for x in s.split(":")]
    h2, m2 = [int(x) for x in e.split(":")]
    secs = (((h2 * 60 + m2) - (h1 * 60 + m1)) % 1440) * 60
    exp = "%d:%02d:%02d" % (secs // 3600, (secs // 60) % 60, 0)
    if obs.get("result") != exp:
        return True, "duration(%s,%s) = %r, expected %r" % (s, e, obs.get("result", obs.get("exception")), exp)
    return False, "ok"


# ------------------------------------------------------------------------------- C12
DAY_BIT = {"MONDAY": 0x02, "TUESDAY": 0x04, "WEDNESDAY": 0x08, "THURSDAY": 0x10, "FRIDAY": 0x20, "SATURDAY": 0x40, "SUNDAY": 0x80}


def _days_of(x):
    x = denorm(x)
    if isinstance(x, (set, list, tuple)):
        return list(x)
    return [x]


@oracle("C12enc")
def o_c12enc(spec, obs):
    arg = denorm(spec["args"][0])
    days = _days_of(spec["args"][0])
    legal = len(days) > 0 and len(set(days)) == len(days)
    if not legal:
        if "exception" in obs:
            return False, "rejected"
        return True, "empty/duplicate input %r accepted: %r" % (days, obs.get("result"))
    if "exception" in obs:
        return True, "legal input raised %s" % obs["exception"]
    exp = "%02x" % sum(DAY_BIT[d.name] for d in days)
    if obs["result"] != exp:
        return True, "mask %r expected %r" % (obs["result"], exp)
    return False, "ok"


@oracle("C12dec")
def o_c12dec(spec, obs):
    from aioswitcher.schedule import Days

    mask = spec["args"][0]
    if not (2 <= mask <= 254):
        if "exception" in obs:
            return False, "rejected"
        return True, "mask %d accepted" % mask
    if "exception" in obs:
        return True, "mask %d raised" % mask
    exp = {"set": sorted(["Days." + d.name for d in Days if mask & DAY_BIT[d.name]], key=repr)}
    if obs["result"] != exp:
        return True, "decode(%d) = %r expected %r" % (mask, obs["result"], exp)
    return False, "ok"


@kind("c12_roundtrip")
def k_c12rt(spec):
    from aioswitcher.schedule import tools

    days = denorm(spec["args"][0])
    try:
        back = tools.bit_summary_to_days(int(tools.weekdays_to_hexadecimal(days), 16))
        return {"result": norm(back)}
    except Exception as e:  # noqa: BLE001
        return exc_name(e)


@oracle("C12rt")
def o_c12rt(spec, obs):
    exp = norm(denorm(spec["args"][0]))
    if obs.get("result") != exp:
        return True, "decode(encode(S)) = %r, S = %r" % (obs.get("result", obs.get("exception")), exp)
    return False, "ok"


# ------------------------------------------------------------------------------- C19
C19_TYPES = {
    "MINI": ("030f", 1, "WATER_HEATER"), "POWER_PLUG": ("01a8", 1, "POWER_PLUG"), "TOUCH": ("030b", 1, "WATER_HEATER"),
    "V2_ESP": ("01a7", 1, "WATER_HEATER"), "V2_QCA": ("01a1", 1, "WATER_HEATER"), "V4": ("0317", 1, "WATER_HEATER"),
    "BREEZE": ("0e01", 2, "THERMOSTAT"), "RUNNER": ("0c01", 2, "SHUTTER"), "RUNNER_MINI": ("0c02", 2, "SHUTTER"),
}
C19_CLASSES = {"SwitcherPowerPlug": "POWER_PLUG", "SwitcherWaterHeater": "WATER_HEATER", "SwitcherThermostat": "THERMOSTAT",
               "SwitcherShutter": "SHUTTER"}


@kind("c19")
def k_c19(spec):
    import aioswitcher.device as dev
    import aioswitcher.api as api
    import aioswitcher.bridge as bridge

    dt = getattr(dev.DeviceType, spec["dtype"])
    out = {"hex_rep": dt.hex_rep, "protocol_type": dt.protocol_type, "category": dt.category.name,
           "udp": bridge.SWITCHER_DEVICE_TO_UDP_PORT.get(dt.category), "tcp": api.SWITCHER_DEVICE_TO_TCP_PORT.get(dt.category),
           "codes": sorted(d.hex_rep for d in dev.DeviceType)}
    if spec.get("cls"):
        common = [dt, dev.DeviceState.ON, "aabbcc", "18", "192.168.1.33", "12:A1:A2:1A:BC:1A", "name"]
        extra = {"SwitcherPowerPlug": [100, 0.5], "SwitcherWaterHeater": [100, 0.5, "00:00:00", "01:00:00"],
                 "SwitcherThermostat": [dev.ThermostatMode.COOL, 22.5, 24, dev.ThermostatFanLevel.LOW, dev.ThermostatSwing.OFF, "ELEC7022"],
                 "SwitcherShutter": [50, dev.ShutterDirection.SHUTTER_STOP]}[spec["cls"]]
        try:
            getattr(dev, spec["cls"])(*(common + extra))
            out["constructed"] = True
        except ValueError:
            out["constructed"] = False
        except Exception as e:  # noqa: BLE001
            out["constructed"] = "raised %s" % type(e).__name__
    return out


@oracle("C19")
def o_c19(spec, obs):
    code, proto, cat = C19_TYPES.get(spec["dtype"], (None, None, None))
    if (obs["hex_rep"], obs["protocol_type"], obs["category"]) != (code, proto, cat):
        return True, "type %s reports %r, statement says %r" % (spec["dtype"], (obs["hex_rep"], obs["protocol_type"], obs["category"]), (code, proto, cat))
    if len(set(obs["codes"])) != len(obs["codes"]):
        return True, "model codes not unique: %r" % obs["codes"]
    eu, et = {1: (20002, 9957), 2: (20003, 10000)}[proto]
    if (obs["udp"], obs["tcp"]) != (eu, et):
        return True, "ports of %s are %r, expected %r" % (spec["dtype"], (obs["udp"], obs["tcp"]), (eu, et))
    if spec.get("cls"):
        want = C19_CLASSES[spec["cls"]] == cat
        if obs.get("constructed") is not want:
            return True, "%s(%s) constructed=%r, expected %r" % (spec["cls"], spec["dtype"], obs.get("constructed"), want)
    return False, "ok"
