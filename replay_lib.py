"""Replay kinds and concrete oracles (imported by replay.py; runs under /venv/bin/python)."""
import binascii

from replay_core import oracle, kind, norm, denorm, exc_name, Env, O, SF  # noqa: F401


# ------------------------------------------------------------------------------- C04
@oracle("C04")
def o_c04(spec, obs):
    s = denorm(spec["args"][0])
    try:
        ok_hex = all(c in "0123456789abcdefABCDEF" for c in s) and len(s) % 2 == 0
    except TypeError:
        ok_hex = False
    if not ok_hex:
        if "exception" in obs:
            return False, "invalid hex raises"
        return True, "invalid hex input %r produced output %r" % (s, obs.get("result"))
    if "exception" in obs:
        return True, "valid hex input raised %s" % obs["exception"]
    body = bytes.fromhex(s)
    exp = s + SF.signature(O, body).hex()
    if obs["result"] != exp:
        return True, "signature mismatch: got %r expected %r" % (obs["result"], exp)
    return False, "ok"
