"""asyncio stubs: stream pair (open_connection) and the event loop's datagram endpoints.
The per-path World plays the device / the kernel / the loop under the contracts of DESIGN §3.3."""
from __future__ import annotations

import errno

from . import engine as E
from .engine import Unsupported
from .values import SymSeq, SymBool, is_sym


class _Yield:
    def __await__(self):
        yield self


class Connection:
    def __init__(self, world, host, port, idx):
        self.world, self.host, self.port, self.idx = world, host, port, idx
        self.frames = []  # everything written, in order
        self.closed = False
        self.nreads = 0
        self.eof_seen_by_device = False
        self.tag = None
        self.reply_fn = None


class Reader:
    def __init__(self, conn):
        self.conn = conn

    async def read(self, n=-1):
        w = self.conn.world
        if w.yield_points:
            await _Yield()
        k = self.conn.nreads
        self.conn.nreads += 1
        if self.conn.closed:
            raise Unsupported("read on a closed stream")
        r = w.reply(self.conn, k)
        w.events.append(("read", self.conn.idx, k))
        return r

    async def readexactly(self, n):
        raise Unsupported("readexactly")

    def at_eof(self):
        return False


class Writer:
    def __init__(self, conn):
        self.conn = conn
        self.transport = self

    def write(self, data):
        if self.conn.closed:
            raise Unsupported("write on a closed stream")
        self.conn.frames.append(data)
        self.conn.world.events.append(("write", self.conn.idx, len(self.conn.frames) - 1))

    async def drain(self):
        if self.conn.world.yield_points:
            await _Yield()

    def close(self):
        self.conn.closed = True
        self.conn.eof_seen_by_device = True
        self.conn.world.events.append(("close", self.conn.idx))

    def is_closing(self):
        return self.conn.closed

    async def wait_closed(self):
        if self.conn.world.yield_points:
            await _Yield()

    def get_extra_info(self, *a, **k):
        return None


class Transport:
    def __init__(self, world, port, protocol):
        self.world, self.port, self.protocol = world, port, protocol
        self.closing = False

    def close(self):
        if self.closing:
            return
        self.closing = True
        if self.world.bound.get(self.port) is self:
            del self.world.bound[self.port]
        self.world.events.append(("udp-close", self.port))
        self.world.pending_lost.append(self)

    def is_closing(self):
        return self.closing

    def abort(self):
        self.close()

    def get_extra_info(self, *a, **k):
        return None

    def sendto(self, *a, **k):
        raise Unsupported("sendto")


class _Handle:
    def __init__(self, callback, args):
        self.callback, self.args, self.cancelled_ = callback, args, False

    def cancel(self):
        self.cancelled_ = True

    def cancelled(self):
        return self.cancelled_


class Loop:
    def __init__(self, world):
        self.world = world

    async def create_datagram_endpoint(self, protocol_factory, local_addr=None, remote_addr=None, *, family=0,
                                       proto=0, flags=0, reuse_port=None, allow_broadcast=None, sock=None):
        w = self.world
        if w.yield_points:
            await _Yield()
        w.run_ready()  # a real suspension point: the loop cycles at least once before the endpoint exists
        if local_addr is None or sock is not None:
            raise Unsupported("create_datagram_endpoint without local_addr")
        port = local_addr[1]
        if is_sym(port):
            raise Unsupported("symbolic port")
        if port in w.bound or port in w.outsiders or (reuse_port and False):
            w.events.append(("bind-fail", port))
            raise OSError(errno.EADDRINUSE, "Address already in use")
        protocol = protocol_factory()
        tr = Transport(w, port, protocol)
        w.bound[port] = tr
        w.all_transports.append(tr)
        w.events.append(("bind", port))
        protocol.connection_made(tr)
        return tr, protocol

    def call_soon(self, callback, *args, context=None):
        """queued for the next loop cycle (World.cycle, or a real suspension point of a stub)"""
        h = _Handle(callback, args)
        self.world.ready.append(h)
        return h

    call_soon_threadsafe = call_soon

    def create_task(self, *a, **k):
        raise Unsupported("loop.create_task")

    def time(self):
        raise Unsupported("loop.time")


class World:
    def __init__(self, path):
        self.path = path
        self.conns = []
        self.events = []
        self.yield_points = False
        self.reply_fn = None  # (conn, k) -> bytes|SymSeq
        self.refuse_fn = None  # (nth open_connection) -> bool|SymBool
        self.nopen = 0
        self.bound = {}
        self.outsiders = set()
        self.all_transports = []
        self.pending_lost = []
        self.ready = []
        self.loop = Loop(self)
        self.loop_errors = []

    def reply(self, conn, k):
        fn = getattr(conn, "reply_fn", None)
        if fn is not None:
            return fn(conn, k)
        if self.reply_fn is None:
            raise Unsupported("no scripted reply")
        return self.reply_fn(conn, k)

    # ---- loop side of the UDP contract
    def run_ready(self):
        """callbacks queued by call_soon before this cycle run now (those they queue wait for the next one)"""
        batch, self.ready = self.ready, []
        for h in batch:
            if h.cancelled_:
                continue
            try:
                h.callback(*h.args)
            except Exception as e:
                self.loop_errors.append(e)

    def cycle(self):
        """the loop cycles once: queued callbacks run, closed transports report connection_lost(None)"""
        self.run_ready()
        for tr in self.pending_lost:
            try:
                tr.protocol.connection_lost(None)
            except Exception as e:
                self.loop_errors.append(e)
        self.pending_lost = []

    def deliver(self, port, data, addr=("192.168.1.2", 20002)):
        """a datagram arrives on `port`: handed to the bound protocol, exceptions go to the
        loop's exception handler (Handle._run) and delivery continues"""
        tr = self.bound.get(port)
        if tr is None or tr.closing:
            return False
        try:
            tr.protocol.datagram_received(data, addr)
        except Exception as e:
            self.loop_errors.append(e)
        return True


def world():
    p = E.cur()
    w = p.notes.get("world")
    if w is None:
        w = World(p)
        p.notes["world"] = w
    return w


async def open_connection(host=None, port=None, *, family=0, **kw):
    w = world()
    if w.yield_points:
        await _Yield()
    k = w.nopen
    w.nopen += 1
    refuse = w.refuse_fn(k) if w.refuse_fn else False
    if isinstance(refuse, SymBool):
        refuse = bool(refuse)
    if refuse:
        w.events.append(("refused", k))
        raise ConnectionRefusedError(errno.ECONNREFUSED, "Connect call failed")
    c = Connection(w, host, port, len(w.conns))
    w.conns.append(c)
    w.events.append(("connect", c.idx))
    return Reader(c), Writer(c)


def get_running_loop():
    return world().loop


def run(coro):
    """drive one coroutine to completion (yield points just continue)"""
    try:
        while True:
            coro.send(None)
    except StopIteration as si:
        return si.value


def run_interleaved(coros, path, label="sched", on_switch=None):
    """drive several coroutines; at every yield point the scheduler picks who continues.
    returns list of ('ok', value) | ('exc', exception)"""
    n = len(coros)
    results = [None] * n
    live = list(range(n))
    while live:
        if len(live) > 1:
            k = live[path.choose(len(live), label)]
        else:
            k = live[0]
        if on_switch is not None:
            on_switch(k)
        try:
            coros[k].send(None)
        except StopIteration as si:
            results[k] = ("ok", si.value)
            live.remove(k)
        except Exception as e:
            results[k] = ("exc", e)
            live.remove(k)
    return results
