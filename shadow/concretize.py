"""Evaluate symbolic values under a model into plain JSON-able data (the same normal form that
replay.py produces for the real objects)."""
from __future__ import annotations

import dataclasses
import datetime as _dt
import enum
import random

import z3

from .values import SymSeq, SymInt, SymBool, Opaque, SymChoice, SymSet, Blob, Hx, U8, unit_term
from . import floats as FL
from . import timeenv as TE

SKIP_FIELDS = {"last_data_update"}


def ev_int(m, x):
    if isinstance(x, bool):
        return int(x)
    if isinstance(x, int):
        return x
    if isinstance(x, SymBool):
        return 1 if z3.is_true(m.eval(x.t, model_completion=True)) else 0
    v = m.eval(x.t, model_completion=True).as_long()
    w = x.t.size()
    if v >= (1 << (w - 1)):
        v -= 1 << w
    return v


def ev_bool(m, b):
    if isinstance(b, bool):
        return b
    return z3.is_true(m.eval(b.t if isinstance(b, SymBool) else b, model_completion=True))


def blob_text(bid, n, seed=0):
    """deterministic printable-ASCII content for a blob"""
    rnd = random.Random("%s/%s" % (seed, bid))
    alphabet = "ABCDEFGHIJKLMNOPQRSTUVWXYZabcdefghijklmnopqrstuvwxyz0123456789"
    return "".join(rnd.choice(alphabet) for _ in range(n)).encode()


def ev_units(m, items, seed=0):
    out = bytearray()
    for u in items:
        if isinstance(u, TE.Tok):
            if u.tkind in TE.DATE_TOKEN_FORMAT:
                day = ev_int(m, u.args[0])
                d = _dt.date(1970, 1, 1) + _dt.timedelta(days=day)
                out.extend(d.strftime(TE.DATE_TOKEN_FORMAT[u.tkind]).encode())
            else:
                raise ValueError("unknown token")
        elif isinstance(u, Blob):
            n = ev_int(m, u.length)
            if u.view == "raw":
                out.extend(blob_text(u.bid, n, seed))
            else:
                out.extend(blob_text(u.bid, n // 2, seed).hex().encode())
        elif isinstance(u, int):
            out.append(u)
        else:
            out.append(m.eval(unit_term(u), model_completion=True).as_long())
    return bytes(out)


def ev_seq(m, s, seed=0):
    b = ev_units(m, s.items, seed)
    if s.stripnul:
        b = b.rstrip(b"\x00")
    if s.kind == "str":
        return b.decode("utf-8", errors="surrogateescape")
    return b


def conc(m, x, seed=0):
    """normal form: ints, bools, str, {'bytes': hex}, lists, dicts"""
    if x is None or isinstance(x, (bool, int, str)):
        return x
    if isinstance(x, float):
        return x
    if isinstance(x, (bytes, bytearray)):
        return {"bytes": bytes(x).hex()}
    if isinstance(x, SymBool):
        return ev_bool(m, x)
    if isinstance(x, SymInt):
        return ev_int(m, x)
    if isinstance(x, SymSeq):
        v = ev_seq(m, x, seed)
        return v if isinstance(v, str) else {"bytes": v.hex()}
    if isinstance(x, Opaque):
        a = [ev_int(m, v) for v in x.args]
        if x.okind == "DecStr":
            return str(a[0])
        if x.okind == "Ipv4":
            return "%d.%d.%d.%d" % tuple(a)
        if x.okind == "TimedeltaStr":
            return str(_dt.timedelta(seconds=a[0]))
        if x.okind == "Amps":
            return round(a[0] / float(220), 1)
        raise ValueError("opaque kind %s" % x.okind)
    if isinstance(x, FL.FQuot):
        return ev_int(m, x.n) / x.d
    if isinstance(x, FL.FInt):
        return float(ev_int(m, x.n))
    if isinstance(x, SymChoice):
        return conc(m, x._alts[ev_int(m, x._idx)], seed)
    if isinstance(x, SymSet):
        return {"set": sorted((conc(m, e, seed) for g, e in x.members if ev_bool(m, g)), key=repr)}
    if isinstance(x, enum.Enum):
        return "%s.%s" % (type(x).__name__, x.name)
    if isinstance(x, (list, tuple)):
        return [conc(m, v, seed) for v in x]
    if isinstance(x, (set, frozenset)):
        return {"set": sorted((conc(m, v, seed) for v in x), key=repr)}
    if isinstance(x, dict):
        return {str(k): conc(m, v, seed) for k, v in x.items()}
    if isinstance(x, BaseException):
        return {"exception": type(x).__name__}
    if isinstance(x, TE.STimedelta):
        return {"timedelta_s": ev_int(m, x.secs)}
    if dataclasses.is_dataclass(x) or hasattr(x, "__dict__"):
        d = {"__class__": type(x).__name__}
        for k, v in vars(x).items():
            if k in SKIP_FIELDS:
                continue
            d[k] = conc(m, v, seed)
        return d
    raise ValueError("cannot concretize %r" % type(x).__name__)
