"""The `__sym__` object the AST rewriter routes operations through, and the shadowed builtins.
On all-concrete operands every entry is exactly the native operation."""
from __future__ import annotations

import builtins as _b
import enum as _enum
import types as _types

import z3

from . import engine as E
from .engine import Unsupported
from .values import (
    SymSeq, SymInt, SymBool, SymChoice, SymSet, Opaque, Hx, U8, Blob, is_sym, sym_eq, b_or, b_and, b_not,
    seq_join, nibble_of, unit_term, mk_bool, i_eq, merge_choice,
)
from . import fmt as F
from . import floats as FL

_SYMSEQ_NATIVE = (str, bytes, bytearray)


def _any_sym(args, kwargs=None):
    for a in args:
        if is_sym(a) or isinstance(a, (FL.SymFloat, SymDict)) or hasattr(type(a), "__sym_format__") or hasattr(type(a), "__sym_str__"):
            return True
        if isinstance(a, (list, tuple)):
            for x in a:
                if is_sym(x):
                    return True
        if isinstance(a, dict):
            for x in a.values():
                if is_sym(x):
                    return True
    if kwargs:
        for a in kwargs.values():
            if is_sym(a):
                return True
    return False


def _user_hash(x):
    """objects whose class defines its own __hash__/__eq__ (they may hash symbolic fields): kept in a SymSet"""
    t = _b.type(x)
    return t.__module__.startswith("aioswitcher_sym") and ("__hash__" in t.__dict__ or "__eq__" in t.__dict__) and not isinstance(x, _enum.Enum)


# =============================================================================== SymDict


class SymDict:
    """dict over a finite concrete key universe; each key has a presence guard.
    entries: {key: (guard, value)}"""

    def __init__(self, entries=None):
        self.entries = dict(entries or {})

    def present(self, key):
        if is_sym(key):
            conds = []
            for k, (g, _v) in self.entries.items():
                conds.append(b_and(g, sym_eq(key, k)))
            return b_or(*conds)
        if key in self.entries:
            return self.entries[key][0]
        return False

    def lookup(self, key):
        if is_sym(key):
            for k, (g, v) in self.entries.items():
                if bool(b_and(sym_eq(key, k), g)):
                    return v
            raise KeyError("symbolic key")
        if key in self.entries:
            g, v = self.entries[key]
            if g is True or (g is not False and bool(g)):
                return v
        raise KeyError(key)

    def __getitem__(self, key):
        return self.lookup(key)

    def __setitem__(self, key, value):
        if is_sym(key):
            raise Unsupported("store under a symbolic key")
        self.entries[key] = (True, value)

    def __contains__(self, key):
        return bool(self.present(key))

    def get(self, key, default=None):
        try:
            return self.lookup(key)
        except KeyError:
            return default

    def keys(self):
        return [k for k, (g, _v) in self.entries.items() if g is True or (g is not False and bool(g))]

    def __iter__(self):
        return iter(self.keys())

    def __len__(self):
        raise Unsupported("len of symbolic dict")

    def __hash__(self):
        raise Unsupported("hash of symbolic dict")


# =============================================================================== dispatcher


class Dispatcher:
    def __init__(self):
        self.symkeys = {}  # id(dict) -> [dict object, [(symbolic key, value), ...]]

    def _side(self, d, create=False):
        ent = self.symkeys.get(id(d))
        if ent is None and create:
            ent = [d, []]
            self.symkeys[id(d)] = ent
        return ent[1] if ent else None

    def mkset(self, items):
        items = _b.list(items)
        if not any(is_sym(x) or _user_hash(x) for x in items):
            return _b.set(items)
        return SymSet.from_iter(items)

    def mkdict(self, pairs):
        out = {}
        for k, v in pairs:
            self.setitem(out, k, v)
        return out

    def setitem(self, obj, key, value):
        if isinstance(obj, dict) and not isinstance(obj, SymDict) and is_sym(key):
            if isinstance(key, SymChoice):
                obj[key.concretize("dict-key")] = value
                return
            side = self._side(obj, True)
            for ent in list(side):
                if _b.bool(sym_eq(ent[0], key)):
                    side.remove(ent)
            for k in list(obj):
                if _b.bool(sym_eq(key, k)):
                    obj[k] = value
                    return
            side.append((key, value))
            return
        obj[key] = value

    # -------- method calls
    def callm(self, recv, name, args, kwargs):
        if isinstance(recv, dict) and self.symkeys and id(recv) in self.symkeys and self.symkeys[id(recv)][1]:
            side = self.symkeys[id(recv)][1]
            if name == "clear":
                side.clear()
                return recv.clear()
            if name == "get":
                try:
                    return self.getitem(recv, args[0])
                except KeyError:
                    return args[1] if len(args) > 1 else None
            if name in ("pop", "popitem", "keys", "values", "items", "copy", "update", "setdefault"):
                raise Unsupported("dict.%s on a dict holding symbolic keys" % name)
        if isinstance(recv, SymSeq):
            m = getattr(recv, "m_" + name, None)
            if m is None:
                raise Unsupported("method %s.%s on symbolic value" % (recv.kind, name))
            r = m(*args, **kwargs)
            return r.simplify() if isinstance(r, SymSeq) else r
        if isinstance(recv, SymSet):
            if name == "add":
                return recv.m_add(*args)
            if name == "copy":
                return SymSet(recv.members)
            m = getattr(recv, "m_" + name, None)
            if m is not None:
                return m(*args, **kwargs)
            raise Unsupported("set.%s on symbolic set" % name)
        if isinstance(recv, SymInt):
            if name == "to_bytes":
                return _int_to_bytes(recv, *args, **kwargs)
            if name == "bit_length":
                v = sym_abs(recv)
                k = 0
                while True:
                    if _b.bool(v < (1 << k)):
                        return k
                    k += 1
                    if k > 80:
                        raise Unsupported("bit_length beyond 80 bits")
            raise Unsupported("int.%s on symbolic int" % name)
        if isinstance(recv, SymChoice):
            return recv._lift(lambda a: self.callm(a, name, args, kwargs))
        if isinstance(recv, Opaque):
            raise Unsupported("method %s on opaque %s" % (name, recv.okind))
        if isinstance(recv, _SYMSEQ_NATIVE) and name == "join" and len(args) == 1 and not kwargs:
            parts = _b.list(args[0])  # the argument may be any iterable (generator, reversed, map)
            if _any_sym(parts):
                return seq_join(recv, parts)
            return recv.join(parts)
        if isinstance(recv, _SYMSEQ_NATIVE) and _any_sym(args, kwargs):
            if name == "format":
                return F.str_format(recv, args, kwargs)
            if name == "join":
                return seq_join(recv, *args)
            s = SymSeq.of(bytes(recv) if isinstance(recv, bytearray) else recv)
            m = getattr(s, "m_" + name, None)
            if m is None:
                raise Unsupported("method %s with symbolic argument" % name)
            r = m(*args, **kwargs)
            return r.simplify() if isinstance(r, SymSeq) else r
        if isinstance(recv, dict) and _any_sym(args[:1]):
            if name == "get":
                try:
                    return self.getitem(recv, args[0])
                except KeyError:
                    return args[1] if len(args) > 1 else None
            if name in ("pop", "setdefault"):
                raise Unsupported("dict.%s with symbolic key" % name)
        if isinstance(recv, (list, tuple)) and name in ("index", "count", "remove") and _any_sym(args):
            raise Unsupported("list.%s with symbolic argument" % name)
        if isinstance(recv, (set, frozenset)) and _any_sym(args):
            raise Unsupported("native set method with symbolic argument")
        if isinstance(recv, _IntShadow):
            return getattr(recv, name)(*args, **kwargs)
        if (recv is _b.bytes or recv is sym_bytes) and name == "fromhex":
            from .stubs import s_unhexlify

            if _any_sym(args):
                a = args[0]
                if a.kind != "str":
                    raise TypeError("fromhex() argument must be str")
                return s_unhexlify(a)
            return _b.bytes.fromhex(*args)
        if recv is sym_str or recv is sym_bytes or recv is sym_set or recv is sym_float:
            return self.callm(_UNSHADOW[recv], name, args, kwargs)
        f = getattr(recv, name)
        if isinstance(recv, _types.ModuleType):
            f = self.subst(f)
        return f(*args, **kwargs)

    # -------- subscripts
    def getitem(self, obj, key):
        if isinstance(obj, dict) and self.symkeys and id(obj) in self.symkeys:
            for k, v in reversed(self.symkeys[id(obj)][1]):
                if _b.bool(sym_eq(k, key)):
                    return v
        if isinstance(obj, dict) and (is_sym(key)):
            if isinstance(key, SymChoice):
                key = key.concretize("dict-key")
                return obj[key]
            for k in obj:
                if bool(sym_eq(key, k)):
                    return obj[k]
            raise KeyError("symbolic key not in dict")
        if isinstance(obj, (list, tuple)) and isinstance(key, SymInt):
            v = E.cur().choose_value(key.t, "list-index")
            if v >= (1 << (key.w - 1)):
                v -= 1 << key.w
            return obj[v]
        if isinstance(obj, (list, tuple)) and isinstance(key, SymChoice):
            return obj[key.concretize("list-index")]
        return obj[key]

    # -------- `in`
    def contains(self, item, container):
        if isinstance(container, dict) and self.symkeys and id(container) in self.symkeys:
            for k, _v in self.symkeys[id(container)][1]:
                if _b.bool(sym_eq(k, item)):
                    return True
        if isinstance(container, SymDict):
            return bool(container.present(item))
        if isinstance(container, SymSet):
            return bool(container.contains(item))
        if isinstance(container, SymRange):
            return _b.bool(container.contains(item))
        if isinstance(container, _b.range) and isinstance(item, SymInt):
            c = b_and(item >= container.start, item < container.stop) if container.step == 1 else b_or(*[i_eq(item, k) for k in container])
            return _b.bool(c)
        if isinstance(container, SymSeq):
            return container.__contains__(item)
        if isinstance(container, SymChoice):
            c = container.concretize("container")
            return self.contains(item, c)
        if is_sym(item):
            if isinstance(container, (dict, list, tuple, set, frozenset)) or hasattr(container, "__iter__"):
                if isinstance(container, (str, bytes)):
                    return SymSeq.of(container).__contains__(item)
                return bool(b_or(*[sym_eq(item, k) for k in container]))
        if isinstance(container, (list, tuple)) and any(is_sym(x) for x in container):
            return bool(b_or(*[sym_eq(item, k) for k in container]))
        return item in container

    # -------- f-strings
    def fstr(self, parts):
        return F.fstr(parts)

    # -------- '%' operator on a string literal
    def mod(self, a, b):
        if isinstance(a, str) and (is_sym(b) or (isinstance(b, tuple) and _any_sym(b))):
            return F.percent_format(a, b)
        return a % b


SYM = Dispatcher()


def _int_to_bytes(v, length=1, byteorder="big", *, signed=False):
    lo, hi = (-(1 << (8 * length - 1)), (1 << (8 * length - 1)) - 1) if signed else (0, (1 << (8 * length)) - 1)
    if not bool(b_and(v >= lo, v <= hi)):
        raise OverflowError("int too big to convert")
    t = v.term(max(v.w, 8 * length))
    bs = [U8(z3.Extract(8 * k + 7, 8 * k, t)) for k in range(length)]
    if byteorder == "big":
        bs = bs[::-1]
    return SymSeq("bytes", bs)


# =============================================================================== builtins


def sym_len(x):
    if isinstance(x, (SymSeq, SymSet)):
        return x.length()
    if isinstance(x, SymChoice):
        return x._lift(lambda a: sym_len(a))
    if isinstance(x, Opaque):
        raise Unsupported("len() of an opaque rendering")
    return _b.len(x)


def _int_base(x, base):
    """int(text, base) for symbolic text"""
    if x.stripnul or x.has_blob():
        raise Unsupported("int() of blob / stripped text")
    units = x.items
    if not units:
        raise ValueError("invalid literal for int() with base %d: ''" % base)
    if base == 16:
        if all(isinstance(u, (Hx, int)) for u in units):
            if all(isinstance(u, int) for u in units):
                return _b.int(bytes(units), 16)
            if any(isinstance(u, int) and not (chr(u) in "0123456789abcdefABCDEF") for u in units):
                raise Unsupported("int(.., 16) of mixed symbolic text with non-digit literal")
            # structural: pairs from the same byte collapse
            parts = []
            k = 0
            n = len(units)
            from .values import hx_pair_byte

            while k < n:
                if k + 1 < n and isinstance(units[k], Hx) and isinstance(units[k + 1], Hx) and units[k].src is not None \
                        and units[k + 1].src is not None and units[k].half == 1 and units[k + 1].half == 0 \
                        and units[k].src.eq(units[k + 1].src):
                    parts.append(units[k].src)
                    k += 2
                else:
                    parts.append(nibble_of(units[k]))
                    k += 1
            t = z3.Concat(*parts) if len(parts) > 1 else parts[0]
            return SymInt.from_unsigned(t)
        raise Unsupported("int(.., 16) of general symbolic units")
    if base == 10:
        # valid iff every unit is a decimal digit (hex-provenance units cannot be sign/space/underscore)
        conds = []
        digs = []
        general = False
        for u in units:
            if isinstance(u, int):
                if not (48 <= u <= 57):
                    raise Unsupported("int() of symbolic text with a literal non-digit")
                digs.append(u - 48)
            elif isinstance(u, Hx):
                conds.append(mk_bool(z3.ULT(u.nib, 10)))
                digs.append(SymInt.from_unsigned(u.nib, 0, 15))
            elif getattr(u, "ascii", False):
                conds.append(mk_bool(z3.And(z3.UGE(u.t, 48), z3.ULE(u.t, 57))))
                general = True
                digs.append(SymInt.mk(z3.ZeroExt(1, u.t) - 48, 0, 9))
            else:
                raise Unsupported("int() base 10 of general symbolic units")
        if not bool(b_and(*conds)):
            if general:
                # a general character that is not a digit may still be accepted by int() (blanks, sign, underscore)
                raise Unsupported("int() of text with a symbolic non-digit character")
            raise ValueError("invalid literal for int() with base 10 (symbolic)")
        v = 0
        for d in digs:
            v = v * 10 + d
        return v
    raise Unsupported("int(text, %r)" % (base,))


class _IntMeta(type):
    def __instancecheck__(cls, inst):
        return _b.isinstance(inst, _b.int) or _b.isinstance(inst, SymInt)


class _IntShadow(metaclass=_IntMeta):
    """stands in for the builtin `int` inside the shadow package"""

    def __new__(cls, x=0, base=None):
        if base is None:
            if isinstance(x, SymInt):
                return x
            if isinstance(x, SymBool):
                return SymInt._coerce(x)
            if isinstance(x, FL.SymFloat):
                return FL.f_int(x)
            if isinstance(x, SymSeq):
                return _int_base(x, 10)
            if isinstance(x, SymChoice):
                return x._lift(lambda a: _IntShadow(a))
            if isinstance(x, Opaque):
                if x.okind == "DecStr":
                    return x.args[0]
                raise Unsupported("int() of opaque %s" % x.okind)
            return _b.int(x)
        if isinstance(x, SymSeq):
            return _int_base(x, base)
        return _b.int(x, base)

    @staticmethod
    def from_bytes(data, byteorder="big", *, signed=False):
        if isinstance(data, SymSeq):
            from .stubs import int_from_units

            data._need_plain("int.from_bytes")
            return int_from_units(list(data.items), byteorder, signed)
        return _b.int.from_bytes(data, byteorder, signed=signed)


def sym_str(x="", *a):
    if a:
        if isinstance(x, SymSeq):
            return x.m_decode(*a)
        return _b.str(x, *a)
    if isinstance(x, SymSeq):
        if x.kind == "str":
            return x
        raise Unsupported("str() of symbolic bytes")
    if isinstance(x, SymInt):
        if x.hi - x.lo < 128:
            # small ranges are concretised (forked) so that the digits can be joined into keys; the path condition
            # may leave far fewer values than the static interval
            try:
                v = E.cur().choose_value(x.t, "str(int)", limit=64)
            except Unsupported:
                return Opaque("DecStr", [x])
            if v >= (1 << (x.w - 1)):
                v -= 1 << x.w
            return _b.str(v)
        return Opaque("DecStr", [x])
    if isinstance(x, SymChoice):
        return x._lift(lambda v: sym_str(v))
    if isinstance(x, Opaque):
        if x.pytype == "str":
            return x
        raise Unsupported("str() of opaque %s" % x.okind)
    if isinstance(x, SymBool):
        raise Unsupported("str() of symbolic bool")
    if hasattr(type(x), "__sym_str__"):
        return x.__sym_str__()
    return _b.str(x)


def sym_float(x=0.0):
    if isinstance(x, SymInt):
        return FL.FInt(x)
    if isinstance(x, FL.SymFloat):
        return x
    if is_sym(x):
        raise Unsupported("float() of %r" % type(x).__name__)
    return _b.float(x)


def sym_round(x, nd=None):
    if isinstance(x, (FL.FQuot, FL.FClock)):
        return x.round_(nd)
    if isinstance(x, FL.FInt):
        return x.n if nd is None else x
    if isinstance(x, SymInt):
        return x
    if is_sym(x) or isinstance(x, FL.SymFloat):
        raise Unsupported("round() of %r" % type(x).__name__)
    return _b.round(x) if nd is None else _b.round(x, nd)


def sym_divmod(a, b):
    if isinstance(a, (SymInt, FL.SymFloat)):
        return a.__divmod__(b)
    if isinstance(b, (SymInt, FL.SymFloat)):
        raise Unsupported("divmod by a symbolic value")
    return _b.divmod(a, b)


class GuardedSeq:
    """result of map(f, SymSet): [(guard, value)]; iterating forks on the guards"""

    def __init__(self, items):
        self.items = items

    def __iter__(self):
        for g, v in self.items:
            if g is True or (g is not False and _b.bool(g)):
                yield v


def sym_map(f, *its):
    if len(its) == 1 and isinstance(its[0], SymSet):
        return GuardedSeq([(g, f(e)) for g, e in its[0].members])
    if len(its) == 1 and isinstance(its[0], GuardedSeq):
        return GuardedSeq([(g, f(e)) for g, e in its[0].items])
    return _b.map(f, *its)


def sym_sum(it, start=0):
    from .values import i_ite

    acc = start
    if isinstance(it, GuardedSeq):
        for g, v in it.items:
            if isinstance(v, (_b.int, SymInt)):
                acc = acc + i_ite(g, v, 0)
            elif g is True or (g is not False and _b.bool(g)):
                acc = acc + v
        return acc
    for v in it:
        acc = acc + v
    return acc


def sym_set(it=()):
    if isinstance(it, SymSet):
        return SymSet(it.members)
    items = _b.list(it)
    return SymSet.from_iter(items)


def sym_hash(x):
    if is_sym(x):
        return HashKey(x)
    return _b.hash(x)


class HashKey:
    """stands for hash(x) of a symbolic x; compared by equality of x (a perfect hash)"""

    def __init__(self, x):
        self.x = x

    def __eq__(self, o):
        if isinstance(o, HashKey):
            return sym_eq(self.x, o.x)
        return False

    __hash__ = None


def _real_type(x):
    if isinstance(x, SymSet):
        return _b.set
    if isinstance(x, SymSeq):
        return _b.str if x.kind == "str" else _b.bytes
    if isinstance(x, SymInt):
        return _b.int
    if isinstance(x, SymBool):
        return _b.bool
    if isinstance(x, FL.SymFloat):
        return _b.float
    if isinstance(x, Opaque):
        return _b.str if x.pytype == "str" else _b.float
    return _b.type(x)


def sym_type(x, *a):
    if a:
        return _b.type(x, *a)
    if isinstance(x, SymChoice):
        ts = {_b.type(v) for v in x._alts}
        if len(ts) == 1:
            t = ts.pop()
            return _RESHADOW.get(t, t)
        return x._lift(lambda v: sym_type(v))
    t = _real_type(x)
    return _RESHADOW.get(t, t)


def _unshadow(cls):
    if isinstance(cls, tuple):
        return tuple(_unshadow(c) for c in cls)
    try:
        return _UNSHADOW.get(cls, cls)
    except TypeError:
        return cls


def sym_isinstance(x, cls):
    cls = _unshadow(cls)
    if isinstance(x, SymChoice):
        rs = {_b.isinstance(v, cls) for v in x._alts}
        if len(rs) == 1:
            return rs.pop()
        return _b.bool(b_or(*[x.cond_is(k) for k, v in enumerate(x._alts) if _b.isinstance(v, cls)]))
    if cls is _b.str or (isinstance(cls, tuple) and _b.str in cls):
        if isinstance(x, SymSeq) and x.kind == "str":
            return True
        if isinstance(x, Opaque) and x.pytype == "str":
            return True
    if cls is _b.bytes or (isinstance(cls, tuple) and _b.bytes in cls):
        if isinstance(x, SymSeq) and x.kind == "bytes":
            return True
    if cls is _b.int or (isinstance(cls, tuple) and _b.int in cls):
        if isinstance(x, SymInt):
            return True
    if cls is _b.set and isinstance(x, SymSet):
        return True
    if cls is _b.float and isinstance(x, FL.SymFloat):
        return True
    return _b.isinstance(x, cls)


def sym_bool(x=False):
    if isinstance(x, SymBool):
        return x
    return _b.bool(x)


def sym_bytes(x=b"", *a):
    if isinstance(x, SymSeq):
        if a:
            return x.m_encode(*a)
        if x.kind == "bytes":
            return x
        raise TypeError("string argument without an encoding")
    if isinstance(x, (list, tuple)) and any(is_sym(v) for v in x):
        items = []
        for v in x:
            if isinstance(v, SymInt):
                if not bool(b_and(v >= 0, v <= 255)):
                    raise ValueError("bytes must be in range(0, 256)")
                items.append(U8(z3.Extract(7, 0, v.term(max(v.w, 8)))))
            else:
                items.append(v)
        return SymSeq("bytes", items)
    return _b.bytes(x, *a)


def sym_format(v, spec=""):
    if is_sym(v) or is_sym(spec):
        return SymSeq("str", F.render_value(v, None, spec)).simplify()
    return _b.format(v, spec)


def sym_abs(x):
    if isinstance(x, SymInt):
        from .values import i_ite

        return i_ite(x < 0, -x, x)
    return _b.abs(x)


def sym_ord(x):
    if isinstance(x, SymSeq):
        if len(x.items) != 1 or isinstance(x.items[0], Blob):
            raise TypeError("ord() expected a character")
        u = x.items[0]
        return u if isinstance(u, int) else SymInt.from_unsigned(unit_term(u))
    return _b.ord(x)


class SymRange:
    """range(a, b[, step]) with symbolic bounds (step concrete positive)"""

    def __init__(self, a, b, step=1):
        self.a, self.b, self.step = a, b, step

    def contains(self, x):
        c = b_and(x >= self.a, x < self.b)
        if self.step != 1:
            c = b_and(c, i_eq((x - self.a) % self.step, 0))
        return c

    def __contains__(self, x):
        return _b.bool(self.contains(x))

    def __iter__(self):
        k = self.a
        while _b.bool(k < self.b):
            yield k
            k = k + self.step

    def __len__(self):
        raise Unsupported("len of symbolic range")


def sym_range(*a):
    if not any(isinstance(x, SymInt) for x in a):
        return _b.range(*a)
    if len(a) == 1:
        return SymRange(0, a[0])
    if len(a) == 2:
        return SymRange(a[0], a[1])
    if isinstance(a[2], SymInt) or a[2] <= 0:
        raise Unsupported("range with symbolic / non-positive step")
    return SymRange(a[0], a[1], a[2])


def sym_frozenset(it=()):
    items = _b.list(it) if not isinstance(it, SymSet) else None
    if items is not None and not any(is_sym(x) for x in items) and not isinstance(it, SymSet):
        return _b.frozenset(items)
    return sym_set(it)


def sym_sorted(it, **kw):
    return _b.sorted(it, **kw)


def sym_memoryview(x):
    if isinstance(x, SymSeq):
        return x  # slicing / indexing a view of symbolic bytes behaves like the bytes themselves
    return _b.memoryview(x)


def sym_bytearray(x=b"", *a):
    if isinstance(x, SymSeq):
        raise Unsupported("bytearray of symbolic bytes (mutable buffer)")
    return _b.bytearray(x, *a)


SHADOW_BUILTINS = {
    "len": sym_len,
    "int": _IntShadow,
    "str": sym_str,
    "float": sym_float,
    "round": sym_round,
    "divmod": sym_divmod,
    "sum": sym_sum,
    "map": sym_map,
    "set": sym_set,
    "hash": sym_hash,
    "type": sym_type,
    "isinstance": sym_isinstance,
    "bytes": sym_bytes,
    "format": sym_format,
    "abs": sym_abs,
    "ord": sym_ord,
    "range": sym_range,
    "memoryview": sym_memoryview,
    "bytearray": sym_bytearray,
    "frozenset": sym_frozenset,
}

_UNSHADOW = {sym_str: _b.str, sym_bytes: _b.bytes, sym_set: _b.set, sym_float: _b.float, _IntShadow: _b.int}
_RESHADOW = {v: k for k, v in _UNSHADOW.items()}
