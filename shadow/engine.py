"""SHADOW engine: re-execution DFS over the real code, one fresh solver per query.

A *path* is one concrete CPython execution of the (AST-rewritten) repository code on
symbolic proxy values.  The only place where execution forks is `Path.branch` (called by
`SymBool.__bool__`) and the explicit `choose*` helpers.  Every decision is recorded in a
trace; unexplored alternatives are queued as decision prefixes and re-executed from scratch.
"""
from __future__ import annotations

import time
import z3


class PathAbort(BaseException):
    """Current path is infeasible / pruned by an assumption (not an error)."""


class Unsupported(BaseException):
    """The code reached an operation SHADOW has no sound model for -> INCONCLUSIVE."""


class Inconclusive(BaseException):
    """Solver answered unknown / timeout / error -> INCONCLUSIVE."""


class HarnessError(BaseException):
    """Witness validation / stub validation / reachability twin failed."""


_CUR = None  # the Path being executed
PATH_START_HOOKS = []  # callables run before every path (module state of the shadow package is put back)


def cur() -> "Path":
    if _CUR is None:
        raise RuntimeError("no symbolic path is active")
    return _CUR


def active() -> bool:
    return _CUR is not None


class Stats:
    def __init__(self):
        self.queries = {"sat": 0, "unsat": 0, "unknown": 0}
        self.solver_s = 0.0
        self.paths = 0
        self.aborted = 0
        self.decisions = 0
        self.forks = 0
        self.max_query_s = 0.0
        self.checks = 0
        self.checks_discharged = 0
        self.twins = 0
        self.cross = {}

    def merge(self, o: "Stats"):
        for k, v in o.cross.items():
            self.cross[k] = self.cross.get(k, 0) + v
        for k in self.queries:
            self.queries[k] += o.queries[k]
        self.solver_s += o.solver_s
        self.paths += o.paths
        self.aborted += o.aborted
        self.decisions += o.decisions
        self.forks += o.forks
        self.max_query_s = max(self.max_query_s, o.max_query_s)
        self.checks += o.checks
        self.checks_discharged += o.checks_discharged
        self.twins += o.twins

    def as_dict(self):
        return {
            "queries_sat": self.queries["sat"],
            "queries_unsat": self.queries["unsat"],
            "queries_unknown": self.queries["unknown"],
            "queries_total": sum(self.queries.values()),
            "solver_s": round(self.solver_s, 3),
            "max_query_s": round(self.max_query_s, 3),
            "feasible_paths": self.paths,
            "pruned_paths": self.aborted,
            "branch_decisions": self.decisions,
            "forks": self.forks,
            "assertions_posed": self.checks,
            "assertions_discharged_unsat": self.checks_discharged,
            "reachability_twins_sat": self.twins,
            "cvc5_cross_checked": dict(self.cross),
        }

    @staticmethod
    def from_dict(d):
        s = Stats()
        s.queries = {"sat": d["queries_sat"], "unsat": d["queries_unsat"], "unknown": d["queries_unknown"]}
        s.solver_s = d["solver_s"]
        s.max_query_s = d["max_query_s"]
        s.paths = d["feasible_paths"]
        s.aborted = d["pruned_paths"]
        s.decisions = d["branch_decisions"]
        s.forks = d["forks"]
        s.checks = d["assertions_posed"]
        s.checks_discharged = d["assertions_discharged_unsat"]
        s.twins = d["reachability_twins_sat"]
        s.cross = dict(d.get("cvc5_cross_checked", {}))
        return s


def _has_uf(terms) -> bool:
    return any(getattr(t, "_shadow_uf", False) for t in terms)


class Engine:
    def __init__(self, timeout_ms: int = 60000, logic: str = "QF_UFBV", max_paths: int = 200000):
        self.timeout_ms = timeout_ms
        self.logic = logic
        self.stats = Stats()
        self.max_paths = max_paths
        self.unsupported = []
        self.t_start = None
        # a single case that keeps the solver busy this long is reported as inconclusive (10 x the per-query limit)
        self.case_budget_s = max(600, timeout_ms // 100)
        import os as _os
        try:
            self.cross_budget = int(_os.environ.get("VERIF_CROSSCHECK", "2"))
        except ValueError:
            self.cross_budget = 2
        self.cross_assert_budget = self.cross_budget

    # ------------------------------------------------------------------ solver facade
    def solve(self, constraints, want_model=False, timeout_ms=None, is_assertion=False):
        """One fresh solver per query.  Returns ('sat', model) / ('unsat', None).
        Raises Inconclusive on unknown."""
        # CPU seconds of this worker process, not wall-clock: a busy machine must not turn a decided case into an inconclusive one
        if self.t_start is None:
            self.t_start = time.process_time()
        elif time.process_time() - self.t_start > self.case_budget_s:
            raise Inconclusive("time budget of this case (%d CPU s) exhausted" % self.case_budget_s)
        s = z3.SolverFor(self.logic)
        s.set("timeout", int(timeout_ms or self.timeout_ms))
        for c in constraints:
            s.add(c)
        t0 = time.time()
        r = s.check()
        dt = time.time() - t0
        self.stats.solver_s += dt
        self.stats.max_query_s = max(self.stats.max_query_s, dt)
        rs = str(r)
        self.stats.queries[rs if rs in self.stats.queries else "unknown"] += 1
        if rs in ("sat", "unsat") and dt < 5.0:
            if is_assertion and self.cross_assert_budget > 0:
                self.cross_assert_budget -= 1
                self.cross_budget += 1
                self._cross_check(s, rs)
            elif self.cross_budget > 0:
                self._cross_check(s, rs)
        if rs == "sat":
            return "sat", (s.model() if want_model else None)
        if rs == "unsat":
            return "unsat", None
        raise Inconclusive("solver returned %s (%s) after %.1fs" % (rs, s.reason_unknown(), dt))

    def _cross_check(self, s, verdict):
        """second opinion: the same query, exported as SMT-LIB, decided by cvc5 (a disagreement is INCONCLUSIVE)"""
        self.cross_budget -= 1
        try:
            import cvc5

            text = "(set-logic QF_UFBV)\n" + "\n".join(l for l in s.to_smt2().splitlines() if not l.startswith("(set-info")) 
            slv = cvc5.Solver()
            slv.setOption("tlimit-per", "10000")
            ip = cvc5.InputParser(slv)
            ip.setStringInput(cvc5.InputLanguage.SMT_LIB_2_6, text, "q")
            sm = ip.getSymbolManager()
            res = None
            while True:
                cmd = ip.nextCommand()
                if cmd.isNull():
                    break
                out = str(cmd.invoke(slv, sm)).strip()
                if out in ("sat", "unsat", "unknown"):
                    res = out
        except Exception as ex:  # noqa: BLE001
            self.stats.cross["error"] = self.stats.cross.get("error", 0) + 1
            return
        if res == verdict:
            self.stats.cross["agree"] = self.stats.cross.get("agree", 0) + 1
        elif res in ("sat", "unsat"):
            self.stats.cross["disagree"] = self.stats.cross.get("disagree", 0) + 1
            raise Inconclusive("z3 says %s, cvc5 says %s on the same query" % (verdict, res))
        else:
            self.stats.cross["unknown"] = self.stats.cross.get("unknown", 0) + 1

    # ------------------------------------------------------------------ exploration
    def explore(self, fn):
        """Run fn(path) on every feasible path.  Yields (path, result, exception)."""
        global _CUR
        work = [[]]
        n = 0
        while work:
            prefix = work.pop()
            path = Path(self, prefix, work)
            _CUR = path
            res = exc = None
            for hook in PATH_START_HOOKS:
                hook()
            try:
                res = fn(path)
            except PathAbort:
                self.stats.aborted += 1
                _CUR = None
                continue
            except Unsupported as u:
                # this path reached an operation without a sound model: recorded (the check cannot return OK),
                # but the remaining paths are still explored - a violation found elsewhere is still a violation
                self.unsupported.append(str(u))
                self.stats.aborted += 1
                _CUR = None
                if len(self.unsupported) > 200:
                    raise
                continue
            except (Inconclusive, HarnessError):
                _CUR = None
                raise
            except Exception as e:  # an exception escaping the harness function itself
                exc = e
            self.stats.paths += 1
            n += 1
            if n > self.max_paths:
                _CUR = None
                raise Inconclusive("path budget exceeded (%d)" % self.max_paths)
            # the path stays current while the harness poses its assertions (definitional
            # fresh symbols of the spec side are added to this path's condition)
            try:
                yield path, res, exc
            finally:
                _CUR = None


class Path:
    def __init__(self, engine: Engine, prefix, work):
        self.engine = engine
        self.prefix = prefix
        self.work = work
        self.trace = []  # decisions taken so far (ints)
        self.pc = []  # z3 Bool terms
        self.nfresh = 0
        self.notes = {}  # free-form per-path data for harnesses/stubs
        self.labels = []  # human-readable decision labels
        self.vars = {}  # name -> z3 const (for witness extraction)
        self.assumptions = []
        self.lazy = []

    # -------------------------------------------------------------- fresh symbols
    def fresh_bv(self, name: str, width: int):
        self.nfresh += 1
        v = z3.BitVec("%s!%d" % (name, self.nfresh), width)
        self.vars[name + "!" + str(self.nfresh)] = v
        return v

    def fresh_bool(self, name: str):
        self.nfresh += 1
        v = z3.Bool("%s!%d" % (name, self.nfresh))
        self.vars[name + "!" + str(self.nfresh)] = v
        return v

    # -------------------------------------------------------------- decisions
    def _decide(self, options, label):
        """options: list of feasible option values (len>=1).  Takes the recorded one or
        the first, queues the rest."""
        i = len(self.trace)
        if i < len(self.prefix):
            v = self.prefix[i]
        else:
            v = options[0]
            for alt in options[1:]:
                self.work.append(self.trace + [alt])
            if len(options) > 1:
                self.engine.stats.forks += len(options) - 1
        self.trace.append(v)
        self.labels.append((label, v))
        self.engine.stats.decisions += 1
        return v

    def lazy_constrain(self, fact):
        """a valid fact (arithmetic lemma instance): only added to the queries when a model violates it"""
        self.lazy.append(fact)

    def solve_lazy(self, extra, want_model=False, is_assertion=False):
        """solve pc /\ extra, activating lemma instances on demand (CEGAR over the lazy facts)"""
        while True:
            if self.lazy:
                try:
                    r, m = self.engine.solve(self.pc + list(extra), want_model=True, timeout_ms=4000)
                except Inconclusive:
                    # the query may need the lemma instances to be decided at all: activate every one of them
                    self.engine.stats.queries["unknown"] -= 1
                    self.pc.extend(self.lazy)
                    self.lazy = []
                    continue
            else:
                r, m = self.engine.solve(self.pc + list(extra), want_model=want_model, is_assertion=is_assertion)
            if r != "sat" or not self.lazy:
                return r, m
            hit = []
            rest = []
            for f in self.lazy:
                if z3.is_false(m.eval(f, model_completion=True)):
                    hit.append(f)
                else:
                    rest.append(f)
            if not hit:
                return r, m
            self.lazy = rest
            self.pc.extend(hit)
            self.engine.stats.lazy_activated = getattr(self.engine.stats, "lazy_activated", 0) + len(hit)

    def feasible(self, extra) -> bool:
        r, _ = self.solve_lazy(list(extra))
        return r == "sat"

    def branch(self, cond, label="if") -> bool:
        """cond: z3 BoolRef.  Returns the Python truth value on this path."""
        cond = _simp_bool(cond)
        if z3.is_true(cond):
            return True
        if z3.is_false(cond):
            return False
        i = len(self.trace)
        if i < len(self.prefix):
            v = self._decide(None, label)
        else:
            opts = []
            if self.feasible([cond]):
                opts.append(1)
                if self.feasible([z3.Not(cond)]):
                    opts.append(0)
            else:
                opts.append(0)  # pc is satisfiable by invariant
            v = self._decide(opts, label)
        self.pc.append(cond if v else z3.Not(cond))
        return bool(v)

    def choose(self, n: int, label="choose") -> int:
        """Plain nondeterminism over range(n) (all options feasible)."""
        i = len(self.trace)
        if i < len(self.prefix):
            return self._decide(None, label)
        return self._decide(list(range(n)), label)

    def choose_value(self, term, label="value", limit=300):
        """Fork over every feasible value of a bit-vector term (solver-enumerated)."""
        i = len(self.trace)
        if i < len(self.prefix):
            v = self._decide(None, label)
        else:
            vals = []
            while True:
                r, m = self.solve_lazy([term != z3.BitVecVal(x, term.size()) for x in vals], want_model=True)
                if r != "sat":
                    break
                vals.append(m.eval(term, model_completion=True).as_long())
                if len(vals) > limit:
                    raise Unsupported("choose_value: more than %d feasible values (%s)" % (limit, label))
            if not vals:
                raise PathAbort()
            vals.sort()
            v = self._decide(vals, label)
        self.pc.append(term == z3.BitVecVal(v, term.size()))
        return v

    def assume(self, cond, note=None):
        """Add a precondition; prune the path if it becomes infeasible."""
        if cond is True:
            return
        if cond is False:
            raise PathAbort()
        cond = _simp_bool(cond)
        if z3.is_true(cond):
            return
        if z3.is_false(cond):
            raise PathAbort()
        i = len(self.trace)
        if i < len(self.prefix):
            self._decide(None, "assume")
            self.pc.append(cond)
            return
        if not self.feasible([cond]):
            raise PathAbort()
        self._decide([1], "assume")
        self.pc.append(cond)

    def constrain(self, cond):
        """Add a constraint known to keep the path feasible (domain of a fresh symbol)."""
        self.pc.append(cond)

    # -------------------------------------------------------------- assertions
    def refute(self, bad, want_model=True):
        """Ask for a model of pc /\\ bad.  Returns model or None (unsat)."""
        self.engine.stats.checks += 1
        r, m = self.solve_lazy([bad], want_model=want_model, is_assertion=True)
        if r == "unsat":
            self.engine.stats.checks_discharged += 1
            return None
        return m

    def witness(self):
        """A model of the path condition (path is feasible by invariant)."""
        r, m = self.solve_lazy([], want_model=True)
        if r != "sat":
            raise HarnessError("path condition unsatisfiable at end of a feasible path")
        return m

    def twin(self, what="reach"):
        """Reachability twin: `assert False` here must be violated, i.e. pc is sat."""
        r, _ = self.solve_lazy([])
        if r != "sat":
            raise HarnessError("reachability twin failed: %s" % what)
        self.engine.stats.twins += 1


def _simp_bool(c):
    if c is True:
        return z3.BoolVal(True)
    if c is False:
        return z3.BoolVal(False)
    return c
