"""Floating point kept opaque-but-structured; exact integer cuts justified by bit-precise
QF_BVFP lemmas that are regenerated and discharged on every run (cvc5 first, z3 second)."""
from __future__ import annotations

import time

import z3

from .engine import Unsupported, Inconclusive
from .values import SymInt, SymBool, Opaque, i_eq, b_and, b_not, is_sym

LEMMAS = {}  # name -> dict(result, solver, seconds, statement)


# ------------------------------------------------------------------------------- lemma discharge


def _cvc5_check_smt2(text, timeout_s):
    import cvc5

    slv = cvc5.Solver()
    slv.setOption("tlimit-per", str(int(timeout_s * 1000)))
    try:
        slv.setOption("fp-exp", "true")
    except Exception:
        pass
    ip = cvc5.InputParser(slv)
    ip.setStringInput(cvc5.InputLanguage.SMT_LIB_2_6, text, "lemma")
    sm = ip.getSymbolManager()
    res = None
    while True:
        cmd = ip.nextCommand()
        if cmd.isNull():
            break
        out = cmd.invoke(slv, sm)
        o = str(out).strip()
        if o in ("sat", "unsat", "unknown"):
            res = o
    return res


def discharge(name, statement, smt2_negation, timeout_s=120, z3_too=False):
    """The lemma holds iff the negation is unsat."""
    if name in LEMMAS:
        if LEMMAS[name]["result"] != "unsat":
            raise Inconclusive("floating point lemma %s not established" % name)
        return
    t0 = time.time()
    res = None
    solver = "cvc5"
    try:
        res = _cvc5_check_smt2(smt2_negation, timeout_s)
    except Exception as e:  # pragma: no cover
        res = "error:%s" % e
    if res != "unsat":
        solver = "z3"
        s = z3.Solver()
        s.set("timeout", int(timeout_s * 1000))
        s.from_string(smt2_negation.replace("(check-sat)", "").replace("(set-logic QF_BVFP)", ""))
        res = str(s.check())
    dt = time.time() - t0
    LEMMAS[name] = {"result": res, "solver": solver, "seconds": round(dt, 2), "statement": statement}
    if res == "sat":
        raise Inconclusive("floating point lemma %s is FALSE (%s)" % (name, statement))
    if res != "unsat":
        raise Inconclusive("floating point lemma %s not established: %s" % (name, res))


def lemma_floor_div(d, bits=32):
    """floor(fl(n / d)) == n div d   for all 0 <= n < 2^bits (double precision, RNE)"""
    name = "L1_floor_div_%d_u%d" % (d, bits)
    stmt = "forall n in [0,2^%d): floor(fl64(n / %d.0)) = n div %d" % (bits, d, d)
    w = bits + 2
    smt = """(set-logic QF_BVFP)
(declare-const n (_ BitVec %(w)d))
(assert (bvult n (_ bv%(lim)d %(w)d)))
(define-fun x () (_ FloatingPoint 11 53) ((_ to_fp_unsigned 11 53) RNE n))
(define-fun q () (_ FloatingPoint 11 53) (fp.div RNE x ((_ to_fp_unsigned 11 53) RNE (_ bv%(d)d %(w)d))))
(define-fun fl () (_ BitVec %(w)d) ((_ fp.to_ubv %(w)d) RTN q))
(assert (not (= fl (bvudiv n (_ bv%(d)d %(w)d)))))
(check-sat)
""" % {"w": w, "lim": 1 << bits, "d": d}
    discharge(name, stmt, smt)
    return name


def lemma_round_half_even(d, bits=20):
    """round(fl(n / d)) (round half to even on the double) == round-half-even of the exact rational n/d, 0 <= n < 2^bits"""
    name = "L3_round_div_%d_u%d" % (d, bits)
    stmt = "forall n in [0,2^%d): roundToIntegral_RNE(fl64(n / %d.0)) = round_half_even(n / %d)" % (bits, d, d)
    w = bits + 4
    smt = """(set-logic QF_BVFP)
(declare-const n (_ BitVec %(w)d))
(assert (bvult n (_ bv%(lim)d %(w)d)))
(define-fun dd () (_ BitVec %(w)d) (_ bv%(d)d %(w)d))
(define-fun x () (_ FloatingPoint 11 53) (fp.div RNE ((_ to_fp_unsigned 11 53) RNE n) ((_ to_fp_unsigned 11 53) RNE dd)))
(define-fun k () (_ BitVec %(w)d) ((_ fp.to_ubv %(w)d) RNE (fp.roundToIntegral RNE x)))
(define-fun q () (_ BitVec %(w)d) (bvudiv n dd))
(define-fun r2 () (_ BitVec %(w)d) (bvmul (_ bv2 %(w)d) (bvurem n dd)))
(define-fun up () Bool (or (bvugt r2 dd) (and (= r2 dd) (= ((_ extract 0 0) q) #b1))))
(assert (not (= k (ite up (bvadd q (_ bv1 %(w)d)) q))))
(check-sat)
""" % {"w": w, "lim": 1 << bits, "d": d}
    discharge(name, stmt, smt)
    return name


def lemma_amps(maxw=65535):
    """round(fl(w/220.0), 1) is the double nearest to k/10 with |22k - w| <= 11."""
    name = "L2_amps_%d" % maxw
    stmt = ("forall w in [0,%d]: round(fl64(w/220.0),1) (x*10 in 64-bit significand, roundToIntegral RNE, "
            "one correctly rounded division by 10.0) = fl64(k/10) with |22k - w| <= 11" % maxw)
    smt = """(set-logic QF_BVFP)
(declare-const w (_ BitVec 32))
(declare-const k (_ BitVec 32))
(assert (bvule w (_ bv%(maxw)d 32)))
(define-fun x () (_ FloatingPoint 11 53) (fp.div RNE ((_ to_fp_unsigned 11 53) RNE w) ((_ to_fp_unsigned 11 53) RNE (_ bv220 32))))
(define-fun xw () (_ FloatingPoint 15 64) ((_ to_fp 15 64) RNE x))
(define-fun x10 () (_ FloatingPoint 15 64) (fp.mul RNE xw ((_ to_fp_unsigned 15 64) RNE (_ bv10 32))))
(define-fun r () (_ FloatingPoint 15 64) (fp.roundToIntegral RNE x10))
(define-fun ki () (_ BitVec 32) ((_ fp.to_ubv 32) RNE r))
(define-fun res () (_ FloatingPoint 11 53) (fp.div RNE ((_ to_fp_unsigned 11 53) RNE ki) ((_ to_fp_unsigned 11 53) RNE (_ bv10 32))))
(define-fun d () (_ BitVec 32) (bvsub (bvmul (_ bv22 32) ki) w))
(assert (not (and (bvsle d (_ bv11 32)) (bvsge d (bvneg (_ bv11 32))))))
(check-sat)
""" % {"maxw": maxw}
    discharge(name, stmt, smt)
    return name


# ------------------------------------------------------------------------------- float proxies


class SymFloat:
    def __hash__(self):
        raise Unsupported("hash of symbolic float")

    def __bool__(self):
        raise Unsupported("truth value of symbolic float")

    def __format__(self, spec):
        raise Unsupported("format of symbolic float")


class FInt(SymFloat):
    """a float whose value is exactly the integer n (|n| < 2^53)"""

    def __init__(self, n):
        self.n = n

    def __truediv__(self, c):
        if isinstance(c, (int, float)) and not isinstance(c, bool) and float(c) == int(c) and c > 0:
            return FQuot(self.n, int(c))
        raise Unsupported("FInt / %r" % (c,))

    def __floordiv__(self, c):
        if isinstance(c, int) and c > 0:
            return FInt(self.n // c)
        raise Unsupported("FInt // %r" % (c,))

    def __mod__(self, c):
        if isinstance(c, int) and c > 0:
            return FInt(self.n % c)
        raise Unsupported("FInt %% %r" % (c,))

    def __divmod__(self, c):
        if isinstance(c, int) and c > 0:
            q, r = divmod(self.n, c) if isinstance(self.n, int) else self.n._divmod_const(c)
            return FInt(q), FInt(r)
        raise Unsupported("divmod(FInt, %r)" % (c,))

    def to_int(self):
        return self.n

    def _arith(self, o, op):
        if isinstance(o, FInt):
            o = o.n
        if isinstance(o, float) and o == int(o):
            o = int(o)
        if isinstance(o, (int, SymInt)) and not isinstance(o, bool):
            r = {"add": lambda a, b: a + b, "sub": lambda a, b: a - b, "rsub": lambda a, b: b - a, "mul": lambda a, b: a * b}[op](self.n, o)
            if isinstance(r, SymInt) and (r.hi >= (1 << 53) or r.lo <= -(1 << 53)):
                raise Unsupported("float beyond 2^53")
            return FInt(r)
        raise Unsupported("float arithmetic with %r" % type(o).__name__)

    def __add__(self, o):
        return self._arith(o, "add")

    __radd__ = __add__

    def __sub__(self, o):
        return self._arith(o, "sub")

    def __rsub__(self, o):
        return self._arith(o, "rsub")

    def __mul__(self, o):
        return self._arith(o, "mul")

    __rmul__ = __mul__

    def _cmp(self, o, op):
        if isinstance(o, FInt):
            o = o.n
        if isinstance(o, float) and o == int(o):
            o = int(o)
        if isinstance(o, (int, SymInt)):
            return getattr(SymInt._coerce(self.n), op)(o) if isinstance(self.n, SymInt) else getattr(SymInt._coerce(o), {"__lt__": "__gt__", "__le__": "__ge__", "__gt__": "__lt__", "__ge__": "__le__", "__eq__": "__eq__"}[op])(self.n)
        raise Unsupported("comparison of FInt with %r" % (o,))

    def __lt__(self, o):
        return self._cmp(o, "__lt__")

    def __le__(self, o):
        return self._cmp(o, "__le__")

    def __gt__(self, o):
        return self._cmp(o, "__gt__")

    def __ge__(self, o):
        return self._cmp(o, "__ge__")

    def __eq__(self, o):
        return self._cmp(o, "__eq__")

    __hash__ = SymFloat.__hash__


class FQuot(SymFloat):
    """fl64(n / d), d a positive integer constant"""

    def __init__(self, n, d):
        self.n = n
        self.d = d
        self._floor = None

    def floor_int(self):
        """floor(fl(n/d)) as an exact integer"""
        if getattr(self, "_floor", None) is not None:
            return self._floor
        n, d = self.n, self.d
        if isinstance(n, int):
            import math

            r = math.floor(n / d)
        elif d & (d - 1) == 0:
            if n.hi < (1 << 53) and n.lo > -(1 << 53):
                r = n // d
            else:
                raise Unsupported("FQuot beyond 2^53")
        else:
            if n.lo < -(1 << 31) or n.hi >= (1 << 32):
                raise Unsupported("float quotient of an integer outside [-2^31, 2^32) by %d" % d)
            lemma_floor_div(d, 32)
            if n.lo >= 0:
                r = n // d
            else:
                from . import engine as E

                p = E.cur()
                if bool(n >= 0):
                    r = n.refine(0, n.hi) // d
                else:
                    # n < 0: an IEEE quotient of a negative by a positive is negative and, by
                    # monotonicity of rounding, lies in [n, 0): floor is a negative integer >= n.
                    # (sound over-approximation; the exact value is never needed for n < 0)
                    lo = n.lo
                    wv = max(2, (-lo).bit_length() + 1)
                    f = p.fresh_bv("negfloor", wv)
                    p.constrain(z3.And(f >= lo, f <= -1))
                    r = SymInt(f, lo, -1)
        self._floor = r
        return r

    def to_int(self):
        # int() truncates toward zero; for n >= 0 this is floor
        n = self.n
        if isinstance(n, int) or n.lo >= 0:
            return self.floor_int()
        from . import engine as E

        if bool(n >= 0):
            return self.floor_int()
        raise Unsupported("int() of a possibly negative float quotient")

    def __divmod__(self, c):
        if isinstance(c, (int, float)) and float(c) == int(c) and c > 0:
            c = int(c)
            fl = self.floor_int()
            k = fl // c
            return FInt(k), FRem(self, k, c)
        raise Unsupported("divmod(FQuot, %r)" % (c,))

    def __floordiv__(self, c):
        return divmod(self, c)[0]

    def __mod__(self, c):
        return divmod(self, c)[1]

    def __eq__(self, o):
        if isinstance(o, FQuot) and o.d == self.d:
            return i_eq(self.n, o.n)
        if isinstance(o, (int, float)) and not is_sym(o):
            # fl(n/d) == o: decidable structurally only for exact multiples
            raise Unsupported("comparison of a float quotient with a constant")
        return False

    def __ne__(self, o):
        return b_not(self.__eq__(o))

    __hash__ = SymFloat.__hash__

    def round_(self, nd):
        if nd is None:
            n, d = self.n, self.d
            if isinstance(n, int):
                return round(n / d)
            if n.lo < 0 or n.hi >= (1 << 20):
                # the lemma is proved for numerators in [0, 2^20): decide that part of the domain, leave the rest undecided
                from .values import b_and as _and
                if not bool(_and(n >= 0, n < (1 << 20))):
                    raise Unsupported("round() of a float quotient outside [0, 2^20)")
                n = n.refine(0, (1 << 20) - 1)
            lemma_round_half_even(d, 20)
            q, r = divmod(n, d)
            from .values import i_ite, b_or, b_and, i_eq
            up = b_or(r * 2 > d, b_and(i_eq(r * 2, d), i_eq(q % 2, 1)))
            return q + i_ite(up, 1, 0)
        if self.d == 220 and nd == 1:
            n = self.n
            if isinstance(n, SymInt) and (n.lo < 0 or n.hi > 65535):
                raise Unsupported("amps of watts outside 0..65535")
            lemma_amps(65535)
            return Opaque("Amps", [n], pytype="float")
        raise Unsupported("round(fl(n/%d), %r)" % (self.d, nd))

    def __repr__(self):
        return "FQuot(/%d)" % self.d


class FRem(SymFloat):
    """x - c*k where x = fl(n/d) and k = floor(x / c)  (second result of float divmod; exact)"""

    def __init__(self, x, k, c):
        self.x, self.k, self.c = x, k, c

    def to_int(self):
        return self.x.floor_int() - self.c * self.k


class FClock(SymFloat):
    """time.time(): t + f with integer t and fraction f in [0,1); `up` = (f >= 0.5)"""

    def __init__(self, t, up):
        self.t, self.up = t, up

    def round_(self, nd=None):
        if nd is not None:
            raise Unsupported("round(clock, ndigits)")
        return self.t + SymInt._coerce(self.up) if isinstance(self.up, SymBool) else self.t + int(self.up)

    def to_int(self):
        return self.t


def f_int(x):
    if isinstance(x, (FInt, FQuot, FRem, FClock)):
        return x.to_int()
    raise Unsupported("int() of %r" % type(x).__name__)
