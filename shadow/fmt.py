"""str.format / f-string / %-formatting on symbolic arguments."""
from __future__ import annotations

import string

import z3

from . import engine as E
from .engine import Unsupported
from .values import SymSeq, SymInt, SymBool, SymChoice, Opaque, Hx, U8, is_sym, _sext


def hex_units(v, minwidth=0, upper=False, fill="0"):
    """units of format(v, 'x') for int|SymInt; forks on the digit count"""
    if isinstance(v, int):
        s = format(v, "X" if upper else "x")
        if minwidth and fill == "0":
            s = format(v, "0%d%s" % (minwidth, "X" if upper else "x"))
        elif minwidth:
            s = s.rjust(minwidth, fill)
        return list(s.encode())
    neg = False
    if v.lo < 0:
        if bool(v < 0):
            neg = True
            v = -v
            if isinstance(v, int):
                u = hex_units(v, max(0, minwidth - 1), upper, fill)
                return [45] + u
    # v >= 0 on this path
    k = 1
    while True:
        if v.hi < (1 << (4 * k)):
            break
        if bool(v < (1 << (4 * k))):
            break
        k += 1
    t = v.term(max(v.w, 4 * k + 1))
    digs = [Hx(nib=z3.Extract(4 * i + 3, 4 * i, t), upper=upper) for i in reversed(range(k))]
    out = ([45] if neg else [])
    padn = max(0, minwidth - len(digs) - len(out))
    if fill == "0":
        return out + [48] * padn + digs
    return [ord(fill)] * padn + out + digs


def dec_units(v, minwidth=0, fill="0"):
    """units of format(v, 'd'); small ranges only (forks on digit count)"""
    if isinstance(v, int):
        s = str(v)
        if minwidth:
            s = format(v, "0%dd" % minwidth) if fill == "0" else s.rjust(minwidth, fill)
        return list(s.encode())
    neg = False
    if v.lo < 0:
        if bool(v < 0):
            neg = True
            v = -v
            if isinstance(v, int):
                return [45] + dec_units(v, max(0, minwidth - 1), fill)
    if v.hi >= 10 ** 12:
        raise Unsupported("decimal rendering of a wide symbolic int into text")
    k = 1
    while True:
        if v.hi < 10 ** k:
            break
        if bool(v < 10 ** k):
            break
        k += 1
    digs = []
    rest = v
    for _ in range(k):
        rest, d = divmod(rest, 10) if isinstance(rest, SymInt) else (rest // 10, rest % 10)
        if isinstance(d, int):
            digs.append(48 + d)
        else:
            digs.append(U8(z3.Extract(7, 0, d.term(max(d.w, 8))) + 48, True))
    digs.reverse()
    out = [45] if neg else []
    padn = max(0, minwidth - len(digs) - len(out))
    if fill == "0":
        return out + [48] * padn + digs
    return [ord(fill)] * padn + out + digs


def _parse_spec(spec):
    """returns (fill, align, sign, alt, zero, width, ty) for the subset we model"""
    import re

    m = re.fullmatch(r"(?:(.)?([<>=^]))?([+\- ])?(#)?(0)?(\d+)?([bcdeEfFgGnosxX%])?", spec)
    if not m:
        raise Unsupported("format spec %r" % spec)
    fill, align, sign, alt, zero, width, ty = m.groups()
    return fill, align, sign, alt, bool(zero), int(width) if width else 0, ty


def render_value(v, conv, spec):
    """units of format(v, spec) after conversion"""
    if isinstance(spec, SymSeq):
        spec = spec.concrete()
    if isinstance(v, SymChoice):
        try:
            v2 = v.as_seq()
        except Unsupported:
            v2 = v.concretize("format-arg")
        v = v2
    if isinstance(v, SymBool):
        v = bool(v)
    if hasattr(type(v), "__sym_str__") and not hasattr(type(v), "__sym_format__") and spec in ("", "s"):
        v = v.__sym_str__()
    if conv not in (None, "s", "r") and conv != -1:
        raise Unsupported("conversion !%s" % conv)
    if conv == "r" and is_sym(v):
        raise Unsupported("repr of a symbolic value")
    if hasattr(type(v), "__sym_format__") and conv is None:
        r = v.__sym_format__(spec)
        return list(r.items) if isinstance(r, SymSeq) else list(str(r).encode("utf-8"))
    if not is_sym(v):
        if conv == "r":
            v = repr(v)
        elif conv == "s":
            v = str(v)
        return list(format(v, spec).encode("utf-8"))
    if isinstance(v, Opaque):
        raise Unsupported("opaque %s rendering formatted into text" % v.okind)
    if isinstance(v, SymSeq):
        if v.kind != "str":
            raise Unsupported("bytes formatted into text")
        if v.stripnul:
            raise Unsupported("rstrip'ed field formatted into text")
        if spec in ("", "s"):
            return list(v.items)
        fill, align, sign, alt, zero, width, ty = _parse_spec(spec)
        if ty not in (None, "s") or sign or alt or zero:
            raise ValueError("Unknown format code for object of type 'str'")
        n = v.length()
        if isinstance(n, SymInt):
            raise Unsupported("padding symbolic-length text")
        pad = [ord(fill or " ")] * max(0, width - n)
        if align in (None, "<"):
            return list(v.items) + pad
        if align == ">":
            return pad + list(v.items)
        raise Unsupported("centered text")
    if isinstance(v, SymInt):
        if conv == "s":
            spec = spec  # str(int) formatted as text: same as 'd' without zero padding tricks
        if spec == "":
            return dec_units(v)
        fill, align, sign, alt, zero, width, ty = _parse_spec(spec)
        if sign or alt or (align not in (None, ">", "=")):
            raise Unsupported("int format spec %r" % spec)
        f = "0" if (zero or (fill == "0")) else (fill or " ")
        if ty in ("x", "X"):
            return hex_units(v, width, ty == "X", f)
        if ty in (None, "d"):
            return dec_units(v, width, f)
        raise Unsupported("int format type %r" % ty)
    raise Unsupported("format of %r" % type(v).__name__)


def str_format(template, args, kwargs):
    if isinstance(template, SymSeq):
        template = template.concrete()
    out = []
    auto = 0
    fm = string.Formatter()
    for lit, field, spec, conv in fm.parse(template):
        if lit:
            out.extend(lit.encode("utf-8"))
        if field is None:
            continue
        if field == "":
            obj = args[auto]
            auto += 1
        else:
            obj, _ = _get_field(field, args, kwargs)
        # nested spec
        if spec and "{" in spec:
            pieces = []
            for l2, f2, s2, c2 in fm.parse(spec):
                pieces.append(l2)
                if f2 is not None:
                    if f2 == "":
                        o2 = args[auto]
                        auto += 1
                    else:
                        o2, _ = _get_field(f2, args, kwargs)
                    if is_sym(o2):
                        raise Unsupported("symbolic nested format spec")
                    pieces.append(format(o2, s2 or ""))
            spec = "".join(pieces)
        out.extend(render_value(obj, conv, spec or ""))
    return SymSeq("str", out).simplify()


def _get_field(field, args, kwargs):
    import re

    m = re.match(r"^([^.\[]*)(.*)$", field)
    first, rest = m.group(1), m.group(2)
    if first.isdigit():
        obj = args[int(first)]
    else:
        obj = kwargs[first]
    for attr, idx in re.findall(r"\.([A-Za-z_]\w*)|\[([^\]]+)\]", rest):
        if attr:
            obj = getattr(obj, attr)
        else:
            obj = obj[int(idx)] if idx.isdigit() else obj[idx]
    return obj, first


def fstr(parts):
    """parts: list of ('l', text) | ('v', value, conversion, spec)"""
    if not any(p[0] == "v" and (is_sym(p[1]) or is_sym(p[3]) or hasattr(type(p[1]), "__sym_format__") or hasattr(type(p[1]), "__sym_str__")) for p in parts):
        out = []
        for p in parts:
            if p[0] == "l":
                out.append(p[1])
            else:
                v, conv, spec = p[1], p[2], p[3]
                if conv == 115:
                    v = str(v)
                elif conv == 114:
                    v = repr(v)
                elif conv == 97:
                    v = ascii(v)
                out.append(format(v, spec))
        return "".join(out)
    out = []
    for p in parts:
        if p[0] == "l":
            out.extend(p[1].encode("utf-8"))
        else:
            conv = {-1: None, 115: "s", 114: "r", 97: "a"}[p[2]]
            out.extend(render_value(p[1], conv, p[3]))
    return SymSeq("str", out).simplify()


def percent_format(template, args):
    """'%02x' % n   -- tiny subset"""
    import re

    if not isinstance(args, tuple):
        args = (args,)
    if not any(is_sym(a) for a in args):
        return template % args
    out = []
    pos = 0
    ai = 0
    for m in re.finditer(r"%(0?)(\d*)([sdxX%])", template):
        out.extend(template[pos:m.start()].encode())
        pos = m.end()
        z, w, ty = m.groups()
        if ty == "%":
            out.append(37)
            continue
        a = args[ai]
        ai += 1
        spec = ("0" if z else "") + w + ("" if ty == "s" else ty)
        out.extend(render_value(a, None, spec if ty != "s" else (w and (">" + w) or "")))
    out.extend(template[pos:].encode())
    return SymSeq("str", out).simplify()
