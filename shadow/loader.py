"""Loader: reads /repo/src/aioswitcher/**.py on every run, rewrites the AST so that operations
CPython would refuse or silently concretise on proxies go through `__sym__`, and installs the
result as package `aioswitcher_sym`.  No semantic change on concrete values."""
from __future__ import annotations

import ast
import importlib
import importlib.abc
import importlib.machinery
import importlib.util
import os
import sys

from .dispatch import SYM, SHADOW_BUILTINS

REPO_SRC = os.environ.get("SHADOW_REPO_SRC", "/repo/src")
PKG = "aioswitcher_sym"
REAL = "aioswitcher"

ENTERED = set()  # (module, qualname) of every function entered symbolically or concretely
SOURCES = {}  # module name -> path


def _enter(name):
    ENTERED.add(name)


def _subst(obj):
    for real, stub in REPLACEMENTS:
        if obj is real:
            return stub
    for pred, fac in TYPE_REPLACEMENTS:
        try:
            if pred(obj):
                return fac(obj)
        except Exception:
            pass
    return obj


SYM.enter = _enter
SYM.subst = _subst


class Rewriter(ast.NodeTransformer):
    def __init__(self, modname):
        self.modname = modname
        self.scope = []
        self.infunc = 0

    # ---- do not touch annotations
    def visit_AnnAssign(self, node):
        if node.value is not None:
            node.value = self.visit(node.value)
        node.target = self.visit(node.target)
        return node

    def visit_arg(self, node):
        return node

    def _stmts(self, body):
        out = []
        for s in body:
            r = self.visit(s)
            if isinstance(r, list):
                out.extend(r)
            elif r is not None:
                out.append(r)
        return out

    def _local_import(self, node):
        """imports executed inside a function bind real objects at run time: route them through
        the same replacement table as the module-level imports"""
        out = [node]
        for al in node.names:
            if al.name == "*":
                continue
            name = (al.asname or al.name).split(".")[0]
            out.append(ast.copy_location(ast.Assign(
                targets=[ast.Name(id=name, ctx=ast.Store())],
                value=ast.Call(func=ast.Attribute(value=ast.Name(id="__sym__", ctx=ast.Load()), attr="subst", ctx=ast.Load()),
                               args=[ast.Name(id=name, ctx=ast.Load())], keywords=[])), node))
        return out

    def visit_Import(self, node):
        return self._local_import(node)

    def visit_ImportFrom(self, node):
        return self._local_import(node)

    def generic_visit(self, node):
        # statement lists may grow (local imports)
        return super().generic_visit(node)

    def _func(self, node):
        self.scope.append(node.name)
        qn = ".".join(self.scope)
        self.infunc += 1
        node.body = self._stmts(node.body)
        self.infunc -= 1
        node.decorator_list = [self.visit(d) for d in node.decorator_list]
        # defaults are ordinary expressions
        node.args.defaults = [self.visit(d) for d in node.args.defaults]
        node.args.kw_defaults = [self.visit(d) if d is not None else None for d in node.args.kw_defaults]
        self.scope.pop()
        call = ast.Expr(
            ast.Call(
                func=ast.Attribute(value=ast.Name(id="__sym__", ctx=ast.Load()), attr="enter", ctx=ast.Load()),
                args=[ast.Constant(self.modname + ":" + qn)],
                keywords=[],
            )
        )
        # keep a docstring first
        k = 0
        if node.body and isinstance(node.body[0], ast.Expr) and isinstance(getattr(node.body[0], "value", None), ast.Constant) \
                and isinstance(node.body[0].value.value, str):
            k = 1
        node.body.insert(k, call)
        return node

    def visit_FunctionDef(self, node):
        return self._func(node)

    def visit_AsyncFunctionDef(self, node):
        return self._func(node)

    def visit_Module(self, node):
        node.body = self._stmts(node.body)
        return node

    def visit_If(self, node):
        node.test = self.visit(node.test)
        node.body = self._stmts(node.body)
        node.orelse = self._stmts(node.orelse)
        return node

    def visit_Try(self, node):
        node.body = self._stmts(node.body)
        for h in node.handlers:
            h.body = self._stmts(h.body)
        node.orelse = self._stmts(node.orelse)
        node.finalbody = self._stmts(node.finalbody)
        return node

    def visit_With(self, node):
        for it in node.items:
            it.context_expr = self.visit(it.context_expr)
        node.body = self._stmts(node.body)
        return node

    visit_AsyncWith = visit_With

    def visit_For(self, node):
        node.iter = self.visit(node.iter)
        node.body = self._stmts(node.body)
        node.orelse = self._stmts(node.orelse)
        return node

    visit_AsyncFor = visit_For

    def visit_While(self, node):
        node.test = self.visit(node.test)
        node.body = self._stmts(node.body)
        node.orelse = self._stmts(node.orelse)
        return node

    def visit_ClassDef(self, node):
        self.scope.append(node.name)
        node.body = self._stmts(node.body)
        node.decorator_list = [self.visit(d) for d in node.decorator_list]
        node.bases = [self.visit(b) for b in node.bases]
        self.scope.pop()
        return node

    def visit_Lambda(self, node):
        node.body = self.visit(node.body)
        return node

    # ---- method calls
    def visit_Call(self, node):
        self.generic_visit(node)
        f = node.func
        if isinstance(f, ast.Attribute) and isinstance(f.ctx, ast.Load):
            if isinstance(f.value, ast.Call) and isinstance(f.value.func, ast.Name) and f.value.func.id == "super":
                return node
            if isinstance(f.value, ast.Name) and f.value.id == "__sym__":
                return node
            args = ast.Tuple(elts=list(node.args), ctx=ast.Load())
            keys, vals = [], []
            for kw in node.keywords:
                keys.append(ast.Constant(kw.arg) if kw.arg is not None else None)
                vals.append(kw.value)
            kwd = ast.Dict(keys=keys, values=vals)
            return ast.copy_location(
                ast.Call(
                    func=ast.Attribute(value=ast.Name(id="__sym__", ctx=ast.Load()), attr="callm", ctx=ast.Load()),
                    args=[f.value, ast.Constant(f.attr), args, kwd],
                    keywords=[],
                ),
                node,
            )
        return node

    # ---- subscripts
    def _slice_expr(self, s):
        if isinstance(s, ast.Slice):
            none = ast.Constant(None)
            return ast.Call(
                func=ast.Name(id="__sym_slice__", ctx=ast.Load()),
                args=[s.lower or none, s.upper or none, s.step or none],
                keywords=[],
            )
        if isinstance(s, ast.Tuple):
            return ast.Tuple(elts=[self._slice_expr(e) for e in s.elts], ctx=ast.Load())
        return s

    def visit_Assign(self, node):
        self.generic_visit(node)
        if len(node.targets) == 1 and isinstance(node.targets[0], ast.Subscript):
            t = node.targets[0]
            return ast.copy_location(ast.Expr(ast.Call(
                func=ast.Attribute(value=ast.Name(id="__sym__", ctx=ast.Load()), attr="setitem", ctx=ast.Load()),
                args=[t.value, self._slice_expr(t.slice), node.value], keywords=[])), node)
        return node

    def visit_Subscript(self, node):
        self.generic_visit(node)
        if isinstance(node.ctx, ast.Load):
            return ast.copy_location(
                ast.Call(
                    func=ast.Attribute(value=ast.Name(id="__sym__", ctx=ast.Load()), attr="getitem", ctx=ast.Load()),
                    args=[node.value, self._slice_expr(node.slice)],
                    keywords=[],
                ),
                node,
            )
        return node

    # ---- set displays / comprehensions (elements may be symbolic: no hashing)
    def visit_SetComp(self, node):
        self.generic_visit(node)
        lc = ast.ListComp(elt=node.elt, generators=node.generators)
        return ast.copy_location(ast.Call(
            func=ast.Attribute(value=ast.Name(id="__sym__", ctx=ast.Load()), attr="mkset", ctx=ast.Load()), args=[lc], keywords=[]), node)

    def visit_Set(self, node):
        self.generic_visit(node)
        lst = ast.List(elts=node.elts, ctx=ast.Load())
        return ast.copy_location(ast.Call(
            func=ast.Attribute(value=ast.Name(id="__sym__", ctx=ast.Load()), attr="mkset", ctx=ast.Load()), args=[lst], keywords=[]), node)

    def visit_DictComp(self, node):
        self.generic_visit(node)
        lc = ast.ListComp(elt=ast.Tuple(elts=[node.key, node.value], ctx=ast.Load()), generators=node.generators)
        return ast.copy_location(ast.Call(
            func=ast.Attribute(value=ast.Name(id="__sym__", ctx=ast.Load()), attr="mkdict", ctx=ast.Load()), args=[lc], keywords=[]), node)

    # ---- in / not in
    def visit_Compare(self, node):
        self.generic_visit(node)
        if len(node.ops) == 1 and isinstance(node.ops[0], (ast.In, ast.NotIn)):
            call = ast.Call(
                func=ast.Attribute(value=ast.Name(id="__sym__", ctx=ast.Load()), attr="contains", ctx=ast.Load()),
                args=[node.left, node.comparators[0]],
                keywords=[],
            )
            if isinstance(node.ops[0], ast.NotIn):
                call = ast.UnaryOp(op=ast.Not(), operand=call)
            return ast.copy_location(call, node)
        return node

    # ---- f-strings
    def visit_JoinedStr(self, node):
        self.generic_visit(node)
        return ast.copy_location(self._fstr(node), node)

    def _fstr(self, node):
        parts = []
        for v in node.values:
            if isinstance(v, ast.Constant):
                parts.append(ast.Tuple(elts=[ast.Constant("l"), v], ctx=ast.Load()))
            elif isinstance(v, ast.FormattedValue):
                if v.format_spec is None:
                    spec = ast.Constant("")
                elif isinstance(v.format_spec, ast.JoinedStr):
                    spec = self._fstr(v.format_spec)
                else:  # already rewritten by generic_visit
                    spec = v.format_spec
                parts.append(
                    ast.Tuple(elts=[ast.Constant("v"), v.value, ast.Constant(v.conversion), spec], ctx=ast.Load())
                )
            else:  # already rewritten nested
                parts.append(ast.Tuple(elts=[ast.Constant("v"), v, ast.Constant(-1), ast.Constant("")], ctx=ast.Load()))
        return ast.Call(
            func=ast.Attribute(value=ast.Name(id="__sym__", ctx=ast.Load()), attr="fstr", ctx=ast.Load()),
            args=[ast.List(elts=parts, ctx=ast.Load())],
            keywords=[],
        )

    # ---- "..." % x
    def visit_BinOp(self, node):
        self.generic_visit(node)
        if isinstance(node.op, ast.Mod) and isinstance(node.left, ast.Constant) and isinstance(node.left.value, str):
            return ast.copy_location(
                ast.Call(
                    func=ast.Attribute(value=ast.Name(id="__sym__", ctx=ast.Load()), attr="mod", ctx=ast.Load()),
                    args=[node.left, node.right],
                    keywords=[],
                ),
                node,
            )
        return node


REPLACEMENTS = []  # list of (real_object, stub) matched by identity after module execution
TYPE_REPLACEMENTS = []  # list of (predicate(value) -> bool, factory(value) -> stub)
POST_HOOKS = []  # callables(module) run after each module is executed


def register_replacement(real, stub):
    REPLACEMENTS.append((real, stub))


class _Loader(importlib.abc.Loader):
    def __init__(self, fullname, path, is_pkg):
        self.fullname = fullname
        self.path = path
        self.is_pkg = is_pkg

    def create_module(self, spec):
        return None

    def exec_module(self, module):
        with open(self.path, "rb") as fh:
            src = fh.read()
        tree = ast.parse(src, self.path)
        tree = Rewriter(self.fullname).visit(tree)
        ast.fix_missing_locations(tree)
        code = compile(tree, self.path, "exec", dont_inherit=True)
        SOURCES[self.fullname] = self.path
        g = module.__dict__
        g["__file__"] = self.path
        g["__sym__"] = SYM
        g["__sym_slice__"] = slice
        g.update(SHADOW_BUILTINS)
        exec(code, g)
        patch_module(module)


def patch_module(module):
    g = module.__dict__
    for name, val in list(g.items()):
        if name.startswith("__"):
            continue
        for real, stub in REPLACEMENTS:
            if val is real:
                g[name] = stub
                break
        else:
            for pred, fac in TYPE_REPLACEMENTS:
                try:
                    hit = pred(val)
                except Exception:
                    hit = False
                if hit:
                    g[name] = fac(val)
                    break
    for h in POST_HOOKS:
        h(module)


class _Finder(importlib.abc.MetaPathFinder):
    def find_spec(self, fullname, path, target=None):
        if fullname != PKG and not fullname.startswith(PKG + "."):
            return None
        rel = fullname[len(PKG):].lstrip(".").replace(".", "/")
        base = os.path.join(REPO_SRC, REAL, rel) if rel else os.path.join(REPO_SRC, REAL)
        if os.path.isdir(base) and os.path.isfile(os.path.join(base, "__init__.py")):
            p = os.path.join(base, "__init__.py")
            spec = importlib.machinery.ModuleSpec(fullname, _Loader(fullname, p, True), origin=p, is_package=True)
            spec.submodule_search_locations = [base]
            return spec
        if os.path.isfile(base + ".py"):
            p = base + ".py"
            return importlib.machinery.ModuleSpec(fullname, _Loader(fullname, p, False), origin=p)
        return None


_installed = False


def install():
    global _installed
    if _installed:
        return
    _installed = True
    from . import engine as _E
    _E.PATH_START_HOOKS.append(restore_state)
    from . import stubs_registry  # noqa: F401  (registers the replacements)

    sys.meta_path.insert(0, _Finder())


def load(sub=""):
    """import aioswitcher_sym[.sub]"""
    install()
    m = importlib.import_module(PKG + ("." + sub if sub else ""))
    snapshot_state()
    return m


def load_real(sub=""):
    """import the unmodified package (for stub validation and in-process witness runs)"""
    if REPO_SRC not in sys.path:
        sys.path.insert(0, REPO_SRC)
    sys.dont_write_bytecode = True
    return importlib.import_module(REAL + ("." + sub if sub else ""))


_STATE = {}


def _containers_of(mod):
    import types

    out = []
    for k, v in list(vars(mod).items()):
        if k.startswith("__"):
            continue
        if isinstance(v, (dict, list, set)):
            out.append(v)
        if isinstance(v, type) and getattr(v, "__module__", "") == mod.__name__:
            for ck, cv in list(vars(v).items()):
                if isinstance(cv, (dict, list, set)) and not ck.startswith("__"):
                    out.append(cv)
                if isinstance(cv, types.FunctionType) and cv.__defaults__:
                    out.extend(d for d in cv.__defaults__ if isinstance(d, (dict, list, set)))
        if isinstance(v, types.FunctionType) and v.__defaults__:
            out.extend(d for d in v.__defaults__ if isinstance(d, (dict, list, set)))
    return out


_BINDINGS = {}


def snapshot_state():
    """remember the content of every mutable module-level / class-level container of the shadow package and the
    binding of every module global and class attribute"""
    import copy

    for name, mod in list(sys.modules.items()):
        if name == PKG or name.startswith(PKG + "."):
            for c in _containers_of(mod):
                if id(c) not in _STATE:
                    _STATE[id(c)] = (c, copy.copy(c))
            if name not in _BINDINGS:
                b = {}
                for k, v in list(vars(mod).items()):
                    if k.startswith("__"):
                        continue
                    b[("g", k)] = v
                    if isinstance(v, type) and getattr(v, "__module__", "") == name:
                        for ck, cv in list(vars(v).items()):
                            if not (ck.startswith("__") and ck.endswith("__")):
                                b[("c", k, ck)] = cv
                _BINDINGS[name] = b


def restore_state():
    """put module-level containers back (state written by one explored path must not leak into the next)"""
    for c, orig in _STATE.values():
        if c != orig or type(c) is not type(orig):
            if isinstance(c, dict):
                c.clear()
                c.update(orig)
            elif isinstance(c, list):
                c[:] = orig
            else:
                c.clear()
                c.update(orig)
    SYM.symkeys.clear()
    # rebinding of module globals / class attributes (flags, counters, memoised scalars)
    for name, b in _BINDINGS.items():
        mod = sys.modules.get(name)
        if mod is None:
            continue
        g = vars(mod)
        classes = {}
        for key, val in b.items():
            if key[0] == "g":
                val = OVERRIDES.get((name, key[1]), val)
                if g.get(key[1], _MISSING) is not val:
                    g[key[1]] = val
            else:
                cls = b.get(("g", key[1]))
                if isinstance(cls, type):
                    classes[key[1]] = cls
                    if cls.__dict__.get(key[2], _MISSING) is not val:
                        try:
                            setattr(cls, key[2], val)
                        except (AttributeError, TypeError):
                            pass
        # attributes added to classes / modules by a path are removed again
        for k in [k for k in list(g) if not k.startswith("__") and ("g", k) not in b]:
            del g[k]
        for cname, cls in classes.items():
            for ck in [ck for ck in list(vars(cls)) if not (ck.startswith("__") and ck.endswith("__")) and ("c", cname, ck) not in b]:
                try:
                    delattr(cls, ck)
                except (AttributeError, TypeError):
                    pass


_MISSING = object()
OVERRIDES = {}  # (module name, global name) -> value: harness-installed replacements (summaries) that survive restore_state


def override(modname, name, value):
    OVERRIDES[(modname, name)] = value
    setattr(sys.modules[modname], name, value)


def clear_overrides():
    for (modname, name) in list(OVERRIDES):
        b = _BINDINGS.get(modname, {})
        if ("g", name) in b:
            setattr(sys.modules[modname], name, b[("g", name)])
    OVERRIDES.clear()


def functions_encoded():
    return sorted(ENTERED)
