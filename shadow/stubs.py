"""Stubs of the C functions the repository calls (binascii, struct, socket, textwrap,
warnings, logging).  Each delegates to the real function when every argument is concrete."""
from __future__ import annotations

import binascii
import socket
import struct
import textwrap

import z3

from . import engine as E
from .engine import Unsupported
from .values import (
    SymSeq, SymInt, SymBool, Hx, U8, Blob, Opaque, SymChoice, unit_term, unit_is_hex_cond, hx_pair_byte,
    general_unit_nibble, b_and, b_not, mk_bool, is_sym,
)

# ------------------------------------------------------------------------------- hexlify


def _as_bytes_seq(x, what):
    if isinstance(x, SymSeq):
        return x
    if isinstance(x, (bytes, bytearray, memoryview)):
        return SymSeq.of(bytes(x))
    if isinstance(x, str):
        return SymSeq.of(x)
    raise TypeError("%s: a bytes-like object is required, not %r" % (what, type(x).__name__))


def s_hexlify(data, *a):
    if not isinstance(data, SymSeq):
        return binascii.hexlify(data, *a)
    sep = None
    if a:
        sep = a[0]
        if len(a) > 1 and a[1] != 1:
            raise Unsupported("hexlify with bytes_per_sep")
        sep = SymSeq.of(sep if isinstance(sep, (bytes, bytearray)) else str(sep).encode()) if not isinstance(sep, SymSeq) else sep
        if len(sep.items) != 1 or not isinstance(sep.items[0], int):
            raise Unsupported("hexlify separator")
        if data.has_blob():
            raise Unsupported("hexlify with separator over a blob")
    if data.kind != "bytes":
        raise TypeError("a bytes-like object is required, not 'str'")
    if data.stripnul:
        raise Unsupported("hexlify of rstrip'ed field")
    out = []
    for k, u in enumerate(data.items):
        if sep is not None and k:
            out.append(sep.items[0])
        if isinstance(u, Blob):
            if u.view != "raw":
                raise Unsupported("hexlify of a hex-view blob")
            out.append(Blob(u.bid, "hex", u.length * 2))
        elif isinstance(u, int):
            out.extend(b"%02x" % u)
        else:
            t = unit_term(u)
            out.append(Hx(src=t, half=1))
            out.append(Hx(src=t, half=0))
    return SymSeq("bytes", out)


def s_unhexlify(data):
    if not isinstance(data, SymSeq):
        return binascii.unhexlify(data)
    if data.stripnul:
        raise Unsupported("unhexlify of rstrip'ed field")
    if data.kind == "str" and not data.all_ascii() and not data.has_blob():
        raise ValueError("string argument should contain only ASCII characters")
    # segment into plain runs and blobs
    out = []
    run = []

    def flush():
        if len(run) % 2:
            raise binascii.Error("Odd-length string")
        # validity of general units
        conds = [unit_is_hex_cond(u) for u in run]
        ok = b_and(*conds)
        if not bool(ok):
            raise binascii.Error("Non-hexadecimal digit found")
        for k in range(0, len(run), 2):
            h, l = run[k], run[k + 1]
            if isinstance(h, int) and isinstance(l, int):
                out.append(int(chr(h) + chr(l), 16))
                continue
            hh = h if isinstance(h, (Hx, int)) else Hx(nib=general_unit_nibble(h))
            ll = l if isinstance(l, (Hx, int)) else Hx(nib=general_unit_nibble(l))
            out.append(U8(hx_pair_byte(hh, ll)))
        run.clear()

    for u in data.items:
        if isinstance(u, Blob):
            flush()
            if u.view != "hex":
                raise Unsupported("unhexlify of a raw blob")
            out.append(Blob(u.bid, "raw", u.length // 2))
        else:
            run.append(u)
    flush()
    return SymSeq("bytes", out).simplify()


# ------------------------------------------------------------------------------- crc

CRC_MODE = "bits"  # or "uf"
_T = []
for _i in range(8):
    _T.append(binascii.crc_hqx(bytes([1 << _i]), 0))

_UF_STEP = z3.Function("crc_step", z3.BitVecSort(16), z3.BitVecSort(8), z3.BitVecSort(16))
_UF_BLOB = {}


def crc_step_bits(crc, byte):
    """one byte of CRC-16/CCITT (poly 0x1021), MSB first, as a z3 term (GF(2)-linear form)"""
    x = z3.Extract(15, 8, crc) ^ byte
    acc = z3.Concat(z3.Extract(7, 0, crc), z3.BitVecVal(0, 8))
    for i in range(8):
        acc = acc ^ (z3.SignExt(15, z3.Extract(i, i, x)) & z3.BitVecVal(_T[i], 16))
    return acc


def crc_step_shift(crc, byte):
    """the textbook shift/xor form (used for cross-validation of the linear form)"""
    crc = crc ^ z3.Concat(byte, z3.BitVecVal(0, 8))
    for _ in range(8):
        crc = z3.If(z3.Extract(15, 15, crc) == 1, (crc << 1) ^ z3.BitVecVal(0x1021, 16), crc << 1)
    return crc


def crc_py(data: bytes, init: int) -> int:
    """independent pure-Python bitwise CRC used by specs and replays"""
    crc = init & 0xFFFF
    for b in data:
        crc ^= b << 8
        for _ in range(8):
            crc = ((crc << 1) ^ 0x1021) & 0xFFFF if crc & 0x8000 else (crc << 1) & 0xFFFF
    return crc


_T_VALS = None
_COLS = {}
_ZERO16 = None


def _cols(k):
    """columns of the GF(2)-linear map  s -> crc(s, k zero bytes)"""
    c = _COLS.get(k)
    if c is None:
        z = bytes(k)
        c = [binascii.crc_hqx(z, 1 << i) for i in range(16)]
        _COLS[k] = c
    return c


def crc_run_concrete(crc, data: bytes):
    """crc over a run of concrete bytes from a symbolic state:  L_k(crc) xor crc(0, data)
    (the CRC is affine over GF(2) in (state, data) for a fixed length)"""
    if z3.is_bv_value(crc):
        return z3.BitVecVal(binascii.crc_hqx(data, crc.as_long()), 16)
    cols = _cols(len(data))
    acc = None
    for i in range(16):
        if cols[i] == 0:
            continue
        t = z3.SignExt(15, z3.Extract(i, i, crc)) & z3.BitVecVal(cols[i], 16)
        acc = t if acc is None else acc ^ t
    c0 = binascii.crc_hqx(data, 0)
    if acc is None:
        return z3.BitVecVal(c0, 16)
    return acc ^ z3.BitVecVal(c0, 16) if c0 else acc


def crc_fold(items, init_term, mode=None, linear_runs=True):
    """fold the crc over a list of units/blobs; returns a 16-bit term"""
    mode = mode or CRC_MODE
    cache = None
    key = None
    if E.active():
        cache = E.cur().notes.setdefault("crc_cache", {})
        key = (init_term.get_id(), mode, tuple(u if isinstance(u, int) else (("b", u.bid, u.view) if isinstance(u, Blob) else unit_term(u).get_id()) for u in items))
        hit = cache.get(key)
        if hit is not None:
            return hit[0]
    crc = init_term
    run = bytearray()

    def flush(crc):
        if run:
            if mode == "bits" and linear_runs:
                crc = crc_run_concrete(crc, bytes(run))
            else:
                for b in run:
                    crc = crc_step_bits(crc, z3.BitVecVal(b, 8)) if mode == "bits" else _UF_STEP(crc, z3.BitVecVal(b, 8))
            run.clear()
        return crc

    for u in items:
        if isinstance(u, int):
            run.append(u)
            continue
        crc = flush(crc)
        if isinstance(u, Blob):
            if u.view != "raw":
                raise Unsupported("crc over a hex-view blob")
            f = _UF_BLOB.get(u.bid)
            if f is None:
                f = z3.Function("crc_blob_%s" % u.bid, z3.BitVecSort(16), z3.BitVecSort(16))
                _UF_BLOB[u.bid] = f
            crc = f(crc)
        elif mode == "bits":
            crc = crc_step_bits(crc, unit_term(u))
        else:
            crc = _UF_STEP(crc, unit_term(u))
    crc = flush(crc)
    if cache is not None:
        cache[key] = (crc, items)
    return crc


def s_crc_hqx(data, value):
    if not isinstance(data, SymSeq) and not isinstance(value, SymInt):
        return binascii.crc_hqx(data, value)
    data = _as_bytes_seq(data, "crc_hqx")
    if data.kind != "bytes":
        raise TypeError("a bytes-like object is required, not 'str'")
    if isinstance(value, SymInt):
        init = z3.Extract(15, 0, value.term(max(value.w, 17)))
    else:
        init = z3.BitVecVal(value & 0xFFFF, 16)
    return SymInt.from_unsigned(crc_fold(data.items, init))


# ------------------------------------------------------------------------------- struct

_SIZES = {"B": 1, "H": 2, "I": 4, "L": 4, "Q": 8, "b": 1, "h": 2, "i": 4, "l": 4, "q": 8}


def _parse_fmt(fmt):
    if isinstance(fmt, SymSeq):
        fmt = fmt.concrete()
    if isinstance(fmt, bytes):
        fmt = fmt.decode()
    order = "@"
    if fmt and fmt[0] in "<>!=@":
        order = fmt[0]
        fmt = fmt[1:]
    codes = []
    cnt = ""
    for ch in fmt:
        if ch.isdigit():
            cnt += ch
            continue
        if ch == " ":
            continue
        if ch not in _SIZES:
            raise Unsupported("struct format %r" % ch)
        codes.extend([ch] * (int(cnt) if cnt else 1))
        cnt = ""
    if order in "@=":
        if order == "@" and any(c in "lLqQ" for c in codes):
            raise Unsupported("native-size struct format")
        order = "<"  # little-endian host; '=' has standard sizes
    if order == "!":
        order = ">"
    return order, codes


def s_pack(fmt, *vals):
    if not any(is_sym(v) for v in vals) and not is_sym(fmt):
        return struct.pack(fmt, *vals)
    order, codes = _parse_fmt(fmt)
    if len(codes) != len(vals):
        raise struct.error("pack expected %d items for packing (got %d)" % (len(codes), len(vals)))
    out = []
    for c, v in zip(codes, vals):
        n = _SIZES[c]
        signed = c.islower()
        lo, hi = (-(1 << (8 * n - 1)), (1 << (8 * n - 1)) - 1) if signed else (0, (1 << (8 * n)) - 1)
        if isinstance(v, SymChoice):
            raise Unsupported("pack of a symbolic choice")
        if not isinstance(v, (int, SymInt)) or isinstance(v, bool) and False:
            if isinstance(v, (float,)) or type(v).__name__.startswith("F"):
                raise struct.error("required argument is not an integer")
            raise struct.error("required argument is not an integer")
        inr = b_and(v >= lo, v <= hi)
        if not bool(inr):
            raise struct.error("argument out of range")
        if isinstance(v, int):
            bs = list(v.to_bytes(n, "little", signed=signed))
        else:
            t = v.term(max(v.w, 8 * n))
            bs = [U8(z3.Extract(8 * k + 7, 8 * k, t)) for k in range(n)]
        if order == ">":
            bs = bs[::-1]
        out.extend(bs)
    return SymSeq("bytes", out)


def s_unpack(fmt, data):
    if not is_sym(data):
        return struct.unpack(fmt, data)
    order, codes = _parse_fmt(fmt)
    total = sum(_SIZES[c] for c in codes)
    if data.has_blob() or len(data.items) != total:
        if not data.has_blob():
            raise struct.error("unpack requires a buffer of %d bytes" % total)
        raise Unsupported("unpack of blob")
    res = []
    p = 0
    for c in codes:
        n = _SIZES[c]
        res.append(int_from_units(data.items[p:p + n], "little" if order == "<" else "big", c.islower()))
        p += n
    return tuple(res)


def s_unpack_from(fmt, buffer, offset=0):
    if not is_sym(buffer) and not is_sym(offset):
        return struct.unpack_from(fmt, buffer, offset)
    if is_sym(offset):
        raise Unsupported("unpack_from with symbolic offset")
    f = fmt.concrete() if isinstance(fmt, SymSeq) else fmt
    if isinstance(f, bytes):
        f = f.decode()
    body = f.lstrip("<>!=@")
    import re as _re

    m = _re.fullmatch(r"(\d+)s", body)
    size = int(m.group(1)) if m else struct.calcsize(f)
    if offset < 0:
        raise Unsupported("unpack_from with negative offset")
    avail = buffer.unit_len() - offset
    enough = avail >= size
    if not (enough if isinstance(enough, bool) else bool(enough)):
        raise struct.error("unpack_from requires a buffer of at least %d bytes" % (size + offset))
    chunk = buffer[offset:offset + size]
    if m:
        return (chunk,)
    return s_unpack(fmt, chunk)


def int_from_units(units, byteorder, signed=False):
    if byteorder == "little":
        units = units[::-1]
    if all(isinstance(u, int) for u in units):
        return int.from_bytes(bytes(units), "big", signed=signed)
    t = z3.Concat(*[unit_term(u) for u in units]) if len(units) > 1 else unit_term(units[0])
    if signed:
        n = t.size()
        return SymInt.mk(t, -(1 << (n - 1)), (1 << (n - 1)) - 1)
    return SymInt.from_unsigned(t)


# ------------------------------------------------------------------------------- socket / textwrap


def s_inet_ntoa(packed):
    if not isinstance(packed, SymSeq):
        return socket.inet_ntoa(packed)
    if packed.kind != "bytes" or packed.has_blob():
        raise Unsupported("inet_ntoa argument")
    if len(packed.items) != 4:
        raise OSError("packed IP wrong length for inet_ntoa")
    args = []
    for u in packed.items:
        args.append(u if isinstance(u, int) else SymInt.from_unsigned(unit_term(u)))
    return Opaque("Ipv4", args)


def s_wrap(text, width=70, **kw):
    if not isinstance(text, SymSeq):
        return textwrap.wrap(text, width, **kw)
    if kw:
        raise Unsupported("wrap with options")
    text._need_plain("wrap")
    # contract valid for whitespace-/hyphen-free text only
    for u in text.items:
        if isinstance(u, Hx):
            continue
        if isinstance(u, int) and chr(u).isalnum():
            continue
        raise Unsupported("textwrap.wrap of text that may hold whitespace or hyphens")
    return [SymSeq(text.kind, text.items[k:k + width]) for k in range(0, len(text.items), width)]


# ------------------------------------------------------------------------------- warnings / logging


def s_warn(message, *a, **k):
    p = E.cur()
    p.notes.setdefault("warnings", []).append(message)


class NullLogger:
    def _n(self, *a, **k):
        return None

    debug = info = warning = error = critical = exception = log = _n

    def isEnabledFor(self, *a):
        return False


def s_getLogger(*a, **k):
    return NullLogger()


# ------------------------------------------------------------------------------- functools caches
def s_lru_cache(maxsize=128, typed=False):
    """functools.lru_cache on possibly symbolic arguments: hits are decided by (symbolic) equality of the arguments;
    the cache lives in the current path (a module-level cache must not leak between explored paths)"""
    import functools
    from .values import sym_eq, b_and

    def deco(fn):
        key = ("lru", id(fn))

        @functools.wraps(fn)
        def wrapper(*args, **kwargs):
            if not E.active():
                return fn(*args, **kwargs)
            store = E.cur().notes.setdefault(key, [])
            for ent in store:
                a2, k2, res = ent
                if len(a2) == len(args) and set(k2) == set(kwargs):
                    same = b_and(*([sym_eq(x, y) for x, y in zip(a2, args)] + [sym_eq(k2[n], kwargs[n]) for n in kwargs]))
                    if bool(same):
                        store.remove(ent)
                        store.append(ent)
                        return res
            res = fn(*args, **kwargs)
            store.append((args, dict(kwargs), res))
            if maxsize is not None and len(store) > maxsize:
                store.pop(0)
            return res

        wrapper.cache_clear = lambda: (E.cur().notes.pop(key, None) if E.active() else None)
        return wrapper

    if callable(maxsize):
        fn, maxsize = maxsize, 128
        return deco(fn)
    return deco


def s_cache(fn):
    return s_lru_cache(None)(fn)


# ------------------------------------------------------------------------------- struct.Struct
class SStruct:
    """struct.Struct working on symbolic values (delegates to the pack / unpack stubs)"""

    def __init__(self, fmt):
        self.format = fmt.concrete() if isinstance(fmt, SymSeq) else fmt
        self._real = struct.Struct(self.format)
        self.size = self._real.size

    def pack(self, *vals):
        return s_pack(self.format, *vals)

    def unpack(self, data):
        return s_unpack(self.format, data)

    def unpack_from(self, buffer, offset=0):
        return s_unpack_from(self.format, buffer, offset)

    def iter_unpack(self, data):
        raise Unsupported("Struct.iter_unpack")

    def pack_into(self, *a):
        raise Unsupported("Struct.pack_into")
