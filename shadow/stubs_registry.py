"""Registers which real objects are replaced by which stubs in the shadow package's globals."""
import asyncio
import binascii
import datetime as _dt
import logging
import socket
import struct
import textwrap
import time as _time
import warnings
import calendar
import functools

from . import loader, stubs
from . import timeenv, aio

R = loader.register_replacement
R(binascii.hexlify, stubs.s_hexlify)
R(binascii.b2a_hex, stubs.s_hexlify)
R(binascii.unhexlify, stubs.s_unhexlify)
R(binascii.a2b_hex, stubs.s_unhexlify)
R(binascii.crc_hqx, stubs.s_crc_hqx)
R(struct.pack, stubs.s_pack)
R(struct.unpack, stubs.s_unpack)
R(struct.unpack_from, stubs.s_unpack_from)
R(struct.Struct, stubs.SStruct)
R(struct.calcsize, struct.calcsize)
R(socket.inet_ntoa, stubs.s_inet_ntoa)
R(textwrap.wrap, stubs.s_wrap)
R(warnings.warn, stubs.s_warn)
R(logging.getLogger, stubs.s_getLogger)
R(functools.lru_cache, stubs.s_lru_cache)
R(functools.cache, stubs.s_cache)
R(_time, timeenv.TIME)
R(calendar, timeenv.CALENDAR)
R(calendar.timegm, timeenv.s_timegm)
R(_dt, timeenv.DATETIME_MODULE)
R(_dt.datetime, timeenv.SDateTimeClass)
R(_dt.timedelta, timeenv.STimedeltaClass)
R(_dt.time, timeenv.STimeClass)
R(_dt.date, timeenv.SDateClass)
R(asyncio.open_connection, aio.open_connection)
R(asyncio.get_running_loop, aio.get_running_loop)
R(asyncio.get_event_loop, aio.get_running_loop)

loader.TYPE_REPLACEMENTS.append((lambda v: isinstance(v, logging.Logger), lambda v: stubs.NullLogger()))
