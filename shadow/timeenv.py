"""Clock, time zone, `time` and `datetime` stubs (DESIGN §3.5).

One symbolic time environment per path (path.notes['timeenv']):
  * clock: every read returns a fresh instant >= the previous read
  * zone : off(t) = o1 if t < T else o2, (T, o1, o2, lo, hi) a row of a table regenerated on
           every run from the system tz database; instants handed to localtime/mktime are
           constrained to [lo, hi] of the row.
"""
from __future__ import annotations

import datetime as _dt
import time as _time

import z3

from . import engine as E
from .engine import Unsupported, PathAbort
from .values import (
    SymInt, SymSeq, SymBool, Opaque, U8, Hx, Blob, b_and, b_or, b_not, mk_bool, i_eq, i_ite, unit_eq, is_sym,
)
from . import floats as FL
from . import values as _V

T_MIN = 1577836800  # 2020-01-01
T_MAX = 4291747199  # 2105-12-31 23:59:59  (< 2^32 - 1)
DAY = 86400

ZONES = [
    "UTC", "Asia/Jerusalem", "America/New_York", "America/St_Johns", "Australia/Lord_Howe", "Asia/Kathmandu",
    "Pacific/Kiritimati", "Pacific/Pago_Pago", "Europe/London", "America/Sao_Paulo", "Australia/Sydney",
    "Asia/Kolkata", "Pacific/Chatham",
]

_TABLE_CACHE = {}


def build_zone_table(zones=None, y0=2024, y1=2037):
    """rows: dict(zone, T, o1, o2, lo, hi, kind)"""
    import zoneinfo

    zones = list(zones or ZONES)
    key = (tuple(zones), y0, y1)
    if key in _TABLE_CACHE:
        return _TABLE_CACHE[key]
    rows = []
    utc = _dt.timezone.utc

    def off(z, t):
        return int(_dt.datetime.fromtimestamp(t, utc).astimezone(z).utcoffset().total_seconds())

    def isdst(z, t):
        d = _dt.datetime.fromtimestamp(t, utc).astimezone(z).dst()
        return 1 if d else 0

    start = int(_dt.datetime(y0, 1, 1, tzinfo=utc).timestamp())
    end = int(_dt.datetime(y1, 12, 31, tzinfo=utc).timestamp())
    far = T_MAX
    for zn in zones:
        z = zoneinfo.ZoneInfo(zn)
        trans = []
        t = start
        o = off(z, t)
        while t < far:
            t2 = min(t + DAY, far)
            o2 = off(z, t2)
            if o2 != o:
                lo_, hi_ = t, t2
                while hi_ - lo_ > 1:
                    mid = (lo_ + hi_) // 2
                    if off(z, mid) == o:
                        lo_ = mid
                    else:
                        hi_ = mid
                trans.append((hi_, o, o2))
                o = o2
            t = t2
        inwin = [tr for tr in trans if tr[0] <= end]
        later = [tr for tr in trans if tr[0] > end]
        for (T, a, b) in inwin:
            rows.append(dict(zone=zn, T=T, o1=a, o2=b, lo=T - 2 * DAY, hi=T + 2 * DAY, kind="transition",
                             d1=isdst(z, T - 1), d2=isdst(z, T)))
        # constant stretches
        bounds = [start - 2 * DAY] + [tr[0] for tr in inwin] + [(later[0][0] if later else far + 2 * DAY)]
        offs = [off(z, start)] + [tr[2] for tr in inwin]
        for k in range(len(offs)):
            lo_, hi_ = bounds[k] + 2 * DAY, bounds[k + 1] - 2 * DAY
            if not later and k == len(offs) - 1:
                hi_ = far
            if hi_ > lo_:
                dflag = isdst(z, lo_)
                rows.append(dict(zone=zn, T=hi_ + 1, o1=offs[k], o2=offs[k], lo=lo_, hi=min(hi_, far), kind="constant", d1=dflag, d2=dflag))
    _TABLE_CACHE[key] = rows
    return rows


class TimeEnv:
    def __init__(self, path, rows=None, clock_lo=T_MIN, clock_hi=T_MAX):
        self.path = path
        self.rows = rows
        self.reads = []  # SymInt instants in order
        self.cache = {}
        self.decomps = []
        self.wdays = []
        self.owner = None
        self.read_owner = []
        self.ups = {}  # read index -> SymBool 'fraction >= .5' (time.time() reads)
        self.clock_lo, self.clock_hi = clock_lo, clock_hi
        self.zi = None
        if rows is not None:
            n = len(rows)
            if n == 1:
                self.zi = 0
            else:
                v = path.fresh_bv("zone_row", max(2, (n - 1).bit_length() + 1))
                self.zi = SymInt(v, 0, n - 1)
                path.constrain(z3.And(v >= 0, v <= n - 1))
            self.T = self._col("T")
            self.o1 = self._col("o1")
            self.o2 = self._col("o2")
            self.lo = self._col("lo")
            self.hi = self._col("hi")
            self.d1 = self._col("d1")
            self.d2 = self._col("d2")

    def _col(self, name):
        vals = [r[name] for r in self.rows]
        if isinstance(self.zi, int):
            return vals[self.zi]
        lo, hi = min(vals), max(vals)
        if lo == hi:
            return lo
        from .values import _width_for
        w = _width_for(lo, hi)
        zt = self.zi.t
        out = z3.BitVecVal(vals[-1] % (1 << w), w)
        for k in range(len(vals) - 2, -1, -1):
            if vals[k] == vals[k + 1] and False:
                continue
            out = z3.If(zt == z3.BitVecVal(k, zt.size()), z3.BitVecVal(vals[k] % (1 << w), w), out)
        return SymInt(out, lo, hi)

    # ---- clock
    def now(self):
        p = self.path
        v = p.fresh_bv("clock", 34)
        t = SymInt(v, self.clock_lo, self.clock_hi)
        cs = [v >= self.clock_lo, v <= self.clock_hi]
        if self.reads:
            prev = self.reads[-1]
            cs.append(v >= prev.term(34) if isinstance(prev, SymInt) else v >= prev)
        if self.rows is not None:
            cs.append(z3.And((t >= self.lo).t if isinstance(t >= self.lo, SymBool) else z3.BoolVal(bool(t >= self.lo)),
                             (t <= self.hi).t if isinstance(t <= self.hi, SymBool) else z3.BoolVal(bool(t <= self.hi))))
        p.constrain(z3.And(*cs))
        self.reads.append(t)
        self.read_owner.append(self.owner)
        return t

    # ---- zone
    def need_zone(self):
        if self.rows is None:
            raise Unsupported("local time needed but the harness configured no zone table")

    def off(self, t):
        self.need_zone()
        return i_ite(t < self.T, self.o1, self.o2)

    def isdst(self, t):
        """tm_isdst flag of the instant t"""
        self.need_zone()
        return i_ite(t < self.T, self.d1, self.d2)

    def in_window(self, t):
        self.need_zone()
        return b_and(t >= self.lo, t <= self.hi)

    def decomp(self, local, what="lt"):
        """local seconds -> (day, h, m, s) via fresh symbols (division-free)"""
        if isinstance(local, int):
            d, r = divmod(local, DAY)
            return d, r // 3600, (r % 3600) // 60, r % 60
        key = ("decomp", local.t.get_id())
        if key in self.cache:
            return self.cache[key][1]
        p = self.path
        dv = p.fresh_bv(what + "_day", 18)
        hv = p.fresh_bv(what + "_h", 6)
        mv = p.fresh_bv(what + "_m", 7)
        sv = p.fresh_bv(what + "_s", 7)
        dlo, dhi = local.lo // DAY, local.hi // DAY
        day = SymInt.mk(dv, max(dlo, -(1 << 17)), min(dhi, (1 << 17) - 1))
        h = SymInt(hv, 0, 23)
        m = SymInt(mv, 0, 59)
        s = SymInt(sv, 0, 59)
        p.constrain(z3.And(dv >= dlo, dv <= dhi, hv >= 0, hv <= 23, mv >= 0, mv <= 59, sv >= 0, sv <= 59))
        tot = ((day * 24 + h) * 60 + m) * 60 + s
        e = i_eq(tot, local)
        p.constrain(e.t if isinstance(e, SymBool) else z3.BoolVal(bool(e)))
        # arithmetic lemma (uniqueness of the mixed-radix decomposition, discharged in LIA once per
        # process): equal totals have equal components.  Stated against every earlier decomposition.
        self.register_decomp(local, (day, h, m, s))
        # definitional symbols: the decomposition of one term is shared by everyone who asks
        self.cache[key] = (local.t, (day, h, m, s))
        return day, h, m, s

    def register_decomp(self, local, comps):
        """`comps` = (day, h, m, s) is the mixed-radix decomposition of `local` (digits in range):
        instantiate the uniqueness lemma against every earlier decomposition"""
        prove_radix_lemma()
        p = self.path
        for (lt, c0) in self.decomps:
            same = i_eq(local, lt)
            if same is False:
                continue
            eqs = b_and(*[i_eq(a, b) for a, b in zip(comps, c0)])
            if same is True:
                p.constrain(_bt2(eqs))
            else:
                p.constrain(z3.Implies(_bt2(same), _bt2(eqs)))
        self.decomps.append((local, comps))

    def weekday_of_day(self, day):
        if isinstance(day, int):
            return (day + 3) % 7
        key = ("wday", day.t.get_id())
        if key in self.cache:
            return self.cache[key][1]
        p = self.path
        wv = p.fresh_bv("wday", 4)
        qv = p.fresh_bv("wq", 16)
        w = SymInt(wv, 0, 6)
        q = SymInt(qv, 0, (day.hi + 3) // 7)
        p.constrain(z3.And(wv >= 0, wv <= 6, qv >= 0))
        e = i_eq(q * 7 + w, day + 3)
        p.constrain(e.t if isinstance(e, SymBool) else z3.BoolVal(bool(e)))
        for (d0, w0) in self.wdays:
            same = i_eq(day, d0)
            if same is False:
                continue
            p.constrain(z3.Implies(_bt2(same), _bt2(i_eq(w, w0))))
        self.wdays.append((day, w))
        self.cache[key] = (day.t, w)
        return w


_RADIX_PROVED = [False]


def _bt2(b):
    return b.t if isinstance(b, SymBool) else z3.BoolVal(bool(b))


def prove_radix_lemma():
    """((d1*24+h1)*60+m1)*60+s1 == ((d2*24+h2)*60+m2)*60+s2 with digits in range implies equal
    components; and d1+3 = 7q1+w1, d2+3 = 7q2+w2 with 0<=w<7 and d1 == d2 implies w1 == w2.  (z3, linear integer arithmetic)"""
    if _RADIX_PROVED[0]:
        return
    d1, h1, m1, s1, d2, h2, m2, s2 = z3.Ints("d1 h1 m1 s1 d2 h2 m2 s2")
    rng = []
    for h, m, s_ in ((h1, m1, s1), (h2, m2, s2)):
        rng += [h >= 0, h < 24, m >= 0, m < 60, s_ >= 0, s_ < 60]
    sol = z3.Solver()
    sol.set("timeout", 60000)
    sol.add(*rng)
    sol.add(((d1 * 24 + h1) * 60 + m1) * 60 + s1 == ((d2 * 24 + h2) * 60 + m2) * 60 + s2)
    sol.add(z3.Or(d1 != d2, h1 != h2, m1 != m2, s1 != s2))
    r1 = str(sol.check())
    q1, w1, q2, w2 = z3.Ints("q1 w1 q2 w2")
    sol2 = z3.Solver()
    sol2.set("timeout", 60000)
    sol2.add(w1 >= 0, w1 < 7, w2 >= 0, w2 < 7, d1 + 3 == 7 * q1 + w1, d1 + 3 == 7 * q2 + w2, w1 != w2)
    r2 = str(sol2.check())
    if r1 != "unsat" or r2 != "unsat":
        raise E.Inconclusive("mixed-radix uniqueness lemma not established (%s, %s)" % (r1, r2))
    FL.LEMMAS["A1_mixed_radix_uniqueness"] = {"result": "unsat", "solver": "z3-LIA", "seconds": 0.0,
                                              "statement": "equal day/hour/minute/second totals (digits in range) have equal components; equal days have equal weekdays"}
    _RADIX_PROVED[0] = True


def env():
    p = E.cur()
    te = p.notes.get("timeenv")
    if te is None:
        te = TimeEnv(p)
        p.notes["timeenv"] = te
    return te


def setup(path, rows=None, **kw):
    te = TimeEnv(path, rows, **kw)
    path.notes["timeenv"] = te
    return te


# =============================================================================== tokens


class Tok(_V.Blob):
    """atomic multi-character token inside a SymSeq (a rendered date): a blob of concrete length"""

    __slots__ = ("tkind", "args")

    def __init__(self, tkind, args, n):
        _V.Blob.__init__(self, "tok:" + tkind, "tok", n)
        self.tkind, self.args = tkind, tuple(args)


def _two_digits(v):
    """two decimal digit units of 0 <= v <= 99"""
    if isinstance(v, int):
        return list(b"%02d" % v)
    q, r = divmod(v, 10)
    out = []
    for d in (q, r):
        if isinstance(d, int):
            out.append(48 + d)
        else:
            out.append(U8(z3.Extract(7, 0, d.term(max(d.w, 9))) + 48, True))
    return out


# =============================================================================== struct_time


class DatePart:
    """year / month / day-of-month / day-of-year of the (symbolic) day number `day`: opaque, only mktime and strftime read it"""

    def __init__(self, part, day):
        self.part, self.day = part, day

    def __hash__(self):
        raise Unsupported("hash of a symbolic calendar field")

    def __eq__(self, o):
        raise Unsupported("comparison of a symbolic calendar field")

    def __index__(self):
        raise Unsupported("calendar field (%s) of a symbolic date used as a number" % self.part)

    __int__ = __index__

    def __format__(self, spec):
        raise Unsupported("calendar field (%s) of a symbolic date formatted" % self.part)


class SStructTime:
    def __init__(self, day, h, m, s, wday=None, date_tok=None, isdst=-1, gmtoff=None):
        self.day, self.tm_hour, self.tm_min, self.tm_sec = day, h, m, s
        self._wday = wday
        self.tm_isdst = isdst
        self._gmtoff = gmtoff

    @property
    def tm_gmtoff(self):
        if self._gmtoff is None:
            raise Unsupported("tm_gmtoff of a struct_time that did not come from localtime/gmtime")
        return self._gmtoff

    @property
    def tm_zone(self):
        raise Unsupported("tm_zone (zone abbreviation)")

    @property
    def tm_wday(self):
        if self._wday is None:
            self._wday = env().weekday_of_day(self.day)
        return self._wday

    def _part(self, name):
        if self.day is None:
            raise Unsupported("calendar field of a struct without date")
        return DatePart(name, self.day)

    tm_year = property(lambda self: self._part("year"))
    tm_mon = property(lambda self: self._part("mon"))
    tm_mday = property(lambda self: self._part("mday"))
    tm_yday = property(lambda self: self._part("yday"))

    def _fields(self):
        return (self.tm_year, self.tm_mon, self.tm_mday, self.tm_hour, self.tm_min, self.tm_sec,
                DatePart("wday", self.day), self.tm_yday, self.tm_isdst)

    def __getitem__(self, i):
        return self._fields()[i]

    def __iter__(self):
        return iter(self._fields())

    def __len__(self):
        return 9


def struct_of(arg):
    """SStructTime from a 9-tuple whose date fields are the calendar parts of one symbolic day"""
    if isinstance(arg, SStructTime):
        return arg
    if isinstance(arg, (tuple, list)) and len(arg) == 9:
        y, mo, d = arg[0], arg[1], arg[2]
        if all(isinstance(x, DatePart) for x in (y, mo, d)) and (y.part, mo.part, d.part) == ("year", "mon", "mday") \
                and y.day is mo.day and mo.day is d.day:
            for x in arg[3:6]:
                if not isinstance(x, (int, SymInt)) or isinstance(x, bool):
                    raise TypeError("an integer is required")
            isd = arg[8]
            if isinstance(isd, DatePart):
                raise Unsupported("tm_isdst from a calendar field")
            return SStructTime(y.day, arg[3], arg[4], arg[5], isdst=isd)
        if not any(is_sym(x) or isinstance(x, DatePart) for x in arg):
            return None
        raise Unsupported("struct_time assembled from unrelated symbolic calendar fields")
    return None


def _is_ws(u):
    if isinstance(u, int):
        return chr(u) in " \t\n\r\x0b\x0c"
    if isinstance(u, Hx):
        return False
    t = u.t
    return mk_bool(z3.Or(t == 32, z3.And(z3.UGE(t, 9), z3.ULE(t, 13))))


def _digit_cond(u, lo=0, hi=9):
    if isinstance(u, int):
        return 48 + lo <= u <= 48 + hi
    if isinstance(u, Hx):
        return mk_bool(z3.And(z3.UGE(u.nib, lo), z3.ULE(u.nib, hi)))
    return mk_bool(z3.And(z3.UGE(u.t, 48 + lo), z3.ULE(u.t, 48 + hi)))


def _digit_val(u):
    if isinstance(u, int):
        return u - 48
    if isinstance(u, Hx):
        return SymInt.from_unsigned(u.nib, 0, 9)
    return SymInt.mk(z3.ZeroExt(1, u.t) - 48, 0, 9)


def _parse_hm(units):
    """parse  H ':' M  (CPython _strptime %H:%M regex, full match).  Forks over the shapes;
    returns (h, m) or raises ValueError."""
    n = len(units)
    for u in units:
        if isinstance(u, (Blob, Tok)) or (not isinstance(u, (int, Hx)) and not u.ascii):
            raise Unsupported("strptime on non-ascii / blob text")
    for hd in (2, 1):
        for md in (2, 1):
            if hd + 1 + md != n:
                continue
            hu, cu, mu = units[:hd], units[hd], units[hd + 1:]
            conds = [unit_eq(cu, 58)]
            if hd == 2:
                conds.append(b_or(b_and(_digit_cond(hu[0], 2, 2), _digit_cond(hu[1], 0, 3)),
                                  b_and(_digit_cond(hu[0], 0, 1), _digit_cond(hu[1]))))
            else:
                conds.append(_digit_cond(hu[0]))
            if md == 2:
                conds.append(b_and(_digit_cond(mu[0], 0, 5), _digit_cond(mu[1])))
            else:
                conds.append(_digit_cond(mu[0]))
            if bool(b_and(*conds)):
                h = _digit_val(hu[0]) * 10 + _digit_val(hu[1]) if hd == 2 else _digit_val(hu[0])
                m = _digit_val(mu[0]) * 10 + _digit_val(mu[1]) if md == 2 else _digit_val(mu[0])
                if isinstance(h, SymInt):
                    h = h.refine(0, 23)
                if isinstance(m, SymInt):
                    m = m.refine(0, 59)
                return h, m
    raise ValueError("time data does not match format (symbolic)")


class TimeModule:
    """stands in for the `time` module"""

    struct_time = _time.struct_time

    def time(self):
        if not E.active():
            return _time.time()
        te = env()
        t = te.now()
        up = te.path.fresh_bool("clock_frac_ge_half")
        te.ups[len(te.reads) - 1] = SymBool(up)
        return FL.FClock(t, SymBool(up))

    def time_ns(self):
        raise Unsupported("time.time_ns")

    def monotonic(self):
        raise Unsupported("time.monotonic")

    def localtime(self, secs=None):
        if not E.active():
            return _time.localtime(secs)
        te = env()
        if secs is None:
            secs = te.now()
        if isinstance(secs, FL.FInt):
            secs = secs.n
        if isinstance(secs, FL.FClock):
            secs = secs.t
        if isinstance(secs, int):
            secs = SymInt._coerce(secs)
        te.need_zone()
        te.path.assume(_bt(te.in_window(secs)))
        local = secs + te.off(secs)
        day, h, m, s = te.decomp(local, "loc")
        return SStructTime(day, h, m, s, isdst=te.isdst(secs), gmtoff=te.off(secs))

    def gmtime(self, secs=None):
        if not E.active():
            return _time.gmtime(secs)
        te = env()
        if secs is None:
            secs = te.now()
        if isinstance(secs, (FL.FInt,)):
            secs = secs.n
        if isinstance(secs, FL.FClock):
            secs = secs.t
        day, h, m, s = te.decomp(SymInt._coerce(secs) if isinstance(secs, int) else secs, "gmt")
        return SStructTime(day, h, m, s, isdst=0, gmtoff=0)

    def strftime(self, fmt, st=None):
        if not E.active():
            return _time.strftime(fmt, st) if st is not None else _time.strftime(fmt)
        if isinstance(fmt, SymSeq):
            fmt = fmt.concrete()
        if st is None:
            st = self.localtime()
        if not isinstance(st, SStructTime):
            return _time.strftime(fmt, st)
        return _render(fmt, st)

    def strptime(self, s, fmt):
        if not E.active() or not is_sym(s):
            return _time.strptime(s, fmt)
        if isinstance(fmt, SymSeq):
            fmt = fmt.concrete()
        dfmt, tkind = _date_prefix(fmt)
        if dfmt is not None and fmt[len(dfmt):] in (" %H:%M", "%H:%M") and len(fmt) > len(dfmt):
            items = list(s.items)
            if not items or not isinstance(items[0], Tok) or items[0].tkind != tkind:
                raise Unsupported("strptime %r on a date that is not a rendered date of that format" % fmt)
            day = items[0].args[0]
            rest = items[1:]
            k = 0
            if fmt[len(dfmt)] == " ":
                # \s+ then H:M
                if not rest:
                    raise ValueError("time data does not match format")
                while k < len(rest) and not isinstance(rest[k], (Blob, Tok)) and bool(_is_ws(rest[k])):
                    k += 1
                if k == 0:
                    raise ValueError("time data does not match format")
            h, m = _parse_hm(rest[k:])
            return SStructTime(day, h, m, 0)
        if fmt == "%H:%M":
            h, m = _parse_hm(list(s.items))
            return SStructTime(None, h, m, 0)
        if dfmt is not None and fmt == dfmt:
            items = list(s.items)
            if len(items) == 1 and isinstance(items[0], Tok) and items[0].tkind == tkind:
                return SStructTime(items[0].args[0], 0, 0, 0)
            raise Unsupported("strptime %r on text that is not a rendered date of that format" % fmt)
        raise Unsupported("strptime format %r" % fmt)

    def mktime(self, st):
        s0 = struct_of(st)
        if s0 is None:
            return _time.mktime(st)
        st = s0
        te = env()
        te.need_zone()
        if st.day is None:
            raise Unsupported("mktime of a struct without date")
        local = ((st.day * 24 + st.tm_hour) * 60 + st.tm_min) * 60 + st.tm_sec
        p = te.path
        v = p.fresh_bv("mktime", 34)
        t = SymInt(v, 0, (1 << 33) - 1)
        p.constrain(v >= 0)
        # the instant must exist (DST gaps are pruned) and lie in the row's window
        p.assume(_bt(b_and(i_eq(t + te.off(t), local), te.in_window(t))))
        inrange = all(isinstance(x, int) and 0 <= x <= hi or (not isinstance(x, int) and x.lo >= 0 and x.hi <= hi)
                      for x, hi in ((st.tm_hour, 23), (st.tm_min, 59), (st.tm_sec, 59)))
        if inrange:
            te.register_decomp(t + te.off(t), (st.day, st.tm_hour, st.tm_min, st.tm_sec))
        isd = st.tm_isdst
        if isinstance(isd, int) and isd < 0:
            return FL.FInt(t)
        # an explicit tm_isdst: glibc interprets the fields with the offset that belongs to that flag; when the flag
        # disagrees with what holds at that local time the result moves by the difference of the two offsets
        flag = i_ite(isd > 0, 1, 0) if not isinstance(isd, int) else (1 if isd > 0 else 0)
        actual = te.isdst(t)
        off_req = i_ite(i_eq(te.d1, flag), te.o1, te.o2)
        agree = i_eq(actual, flag)
        known = b_or(i_eq(te.d1, flag), i_eq(te.d2, flag))
        res = i_ite(b_or(agree, b_not(known)), t, local - off_req)
        return FL.FInt(res)

    def sleep(self, *a):
        return None

    def tzset(self):
        return None

    def __getattr__(self, name):
        if name.startswith("__"):
            raise AttributeError(name)
        if not E.active():
            return getattr(_time, name)
        raise Unsupported("time.%s is not modelled (it would read the real clock or zone)" % name)


def _bt(b):
    return b.t if isinstance(b, SymBool) else bool(b)


# rendered calendar dates are atomic tokens (the day number they came from is kept, the digits are produced at witness time)
DATE_FORMATS = {"%d/%m/%Y": "LocalDate", "%Y-%m-%d": "IsoDate", "%Y/%m/%d": "YmdSlash", "%d-%m-%Y": "DmyDash", "%d.%m.%Y": "DmyDot",
                "%m/%d/%Y": "MdySlash"}
DATE_TOKEN_FORMAT = {v: k for k, v in DATE_FORMATS.items()}


def _date_prefix(fmt):
    for f, tk in DATE_FORMATS.items():
        if fmt.startswith(f):
            return f, tk
    return None, None


def _render(fmt, st):
    out = []
    k = 0
    while k < len(fmt):
        c = fmt[k]
        if c != "%":
            out.extend(c.encode())
            k += 1
            continue
        d = fmt[k + 1]
        k += 2
        if d == "H":
            out.extend(_two_digits(st.tm_hour))
        elif d == "M":
            out.extend(_two_digits(st.tm_min))
        elif d == "S":
            out.extend(_two_digits(st.tm_sec))
        elif d == "%":
            out.append(37)
        elif _date_prefix(fmt[k - 2:])[0] is not None:
            if st.day is None:
                raise Unsupported("date directive on a value without date")
            out.append(Tok(_date_prefix(fmt[k - 2:])[1], [st.day], 10))
            k += 6
        else:
            raise Unsupported("strftime directive %%%s" % d)
    return SymSeq("str", out).simplify()


TIME = TimeModule()


def s_timegm(st):
    import calendar as _cal

    if not isinstance(st, SStructTime):
        return _cal.timegm(st)
    if st.day is None:
        raise Unsupported("timegm of a struct without date")
    return ((st.day * 24 + st.tm_hour) * 60 + st.tm_min) * 60 + st.tm_sec


class _CalendarModule:
    timegm = staticmethod(s_timegm)

    def __getattr__(self, name):
        import calendar as _cal

        return getattr(_cal, name)


CALENDAR = _CalendarModule()

# =============================================================================== datetime

EPOCH_1900 = -2208988800


class STime:
    """datetime.time proxy"""

    def __init__(self, hour=0, minute=0, second=0, microsecond=0, tzinfo=None):
        if not (isinstance(microsecond, int) and microsecond == 0):
            if is_sym(microsecond):
                raise Unsupported("symbolic microseconds")
        for name, v, hi in (("hour", hour, 23), ("minute", minute, 59), ("second", second, 59)):
            if isinstance(v, (FL.SymFloat, float)):
                raise TypeError("integer argument expected, got float")
            ok = b_and(v >= 0, v <= hi)
            if not bool(ok):
                raise ValueError("%s must be in 0..%d" % (name, hi))
        self.hour, self.minute, self.second, self.microsecond = hour, minute, second, microsecond

    def _secs(self):
        return (self.hour * 60 + self.minute) * 60 + self.second

    def replace(self, **kw):
        if kw.get("microsecond", 0):
            raise Unsupported("microseconds")
        return STime(kw.get("hour", self.hour), kw.get("minute", self.minute), kw.get("second", self.second))

    def isoformat(self, timespec="auto"):
        if timespec != "auto":
            raise Unsupported("isoformat timespec")
        if self.microsecond:
            raise Unsupported("isoformat with microseconds")
        return SymSeq("str", _two_digits(self.hour) + [58] + _two_digits(self.minute) + [58] + _two_digits(self.second)).simplify()

    __sym_str__ = isoformat

    def strftime(self, fmt):
        return _render(fmt, SStructTime(None, self.hour, self.minute, self.second))

    def _cmp(self, o, op):
        if not isinstance(o, STime):
            return NotImplemented
        a, b = self._secs(), o._secs()
        return getattr(SymInt._coerce(a), op)(b)

    def __lt__(self, o):
        return self._cmp(o, "__lt__")

    def __le__(self, o):
        return self._cmp(o, "__le__")

    def __gt__(self, o):
        return self._cmp(o, "__gt__")

    def __ge__(self, o):
        return self._cmp(o, "__ge__")

    def __eq__(self, o):
        return self._cmp(o, "__eq__")

    def __hash__(self):
        raise Unsupported("hash of symbolic time")


class _CallableClass:
    """wraps a proxy class so that `datetime.time(...)` / isinstance keep working"""


class STimedelta:
    def __init__(self, days=0, seconds=0, microseconds=0, milliseconds=0, minutes=0, hours=0, weeks=0):
        for v in (microseconds, milliseconds):
            if is_sym(v) or v:
                if is_sym(v):
                    raise Unsupported("symbolic sub-second timedelta")
        for v in (days, seconds, minutes, hours, weeks):
            if isinstance(v, (float, FL.SymFloat)):
                raise Unsupported("float timedelta components")
        self.us = int(microseconds + 1000 * milliseconds) if not is_sym(microseconds) else 0
        self.secs = (((weeks * 7 + days) * 24 + hours) * 60 + minutes) * 60 + seconds
        if self.us:
            self.secs = self.secs + self.us // 1000000
            self.us = self.us % 1000000

    def total_seconds(self):
        if self.us:
            raise Unsupported("timedelta with microseconds")
        if isinstance(self.secs, int):
            return float(self.secs)
        return FL.FInt(self.secs)

    @property
    def days(self):
        return self.secs // DAY

    @property
    def seconds(self):
        return self.secs % DAY

    def __sym_str__(self):
        if isinstance(self.secs, int):
            return str(_dt.timedelta(seconds=self.secs, microseconds=self.us))
        return Opaque("TimedeltaStr", [self.secs])

    def __add__(self, o):
        if isinstance(o, STimedelta):
            return STimedelta(seconds=self.secs + o.secs)
        if isinstance(o, SDateTime):
            return o + self
        return NotImplemented

    def __sub__(self, o):
        if isinstance(o, STimedelta):
            return STimedelta(seconds=self.secs - o.secs)
        return NotImplemented

    def __neg__(self):
        return STimedelta(seconds=-self.secs)

    def _cmp(self, o, op):
        if not isinstance(o, STimedelta):
            return NotImplemented
        return getattr(SymInt._coerce(self.secs), op)(o.secs)

    def __lt__(self, o):
        return self._cmp(o, "__lt__")

    def __le__(self, o):
        return self._cmp(o, "__le__")

    def __gt__(self, o):
        return self._cmp(o, "__gt__")

    def __ge__(self, o):
        return self._cmp(o, "__ge__")

    def __eq__(self, o):
        return self._cmp(o, "__eq__")

    def __hash__(self):
        raise Unsupported("hash of symbolic timedelta")

    def __bool__(self):
        return bool(self.secs != 0)


class SDateTime:
    """naive datetime: seconds since the epoch = base (concrete) + off (symbolic, small), plus
    cached h/m when known"""

    def __init__(self, secs, h=None, m=None, s=None, day=None, lazy=None, base=0):
        self._off = secs
        self._base = base
        self._h, self._m, self._s, self._day = h, m, s, day
        self._lazy = lazy

    @property
    def off(self):
        if self._off is None and self._lazy is not None:
            self._off = self._lazy()
        return self._off

    @property
    def secs(self):
        return self._base + self.off

    def _fields(self):
        if self._h is None:
            te = env()
            self._day, self._h, self._m, self._s = te.decomp(self.secs, "dt")
        return self._day, self._h, self._m, self._s

    def weekday(self):
        day = self._fields()[0]
        return env().weekday_of_day(day)

    def isoweekday(self):
        return self.weekday() + 1

    def time(self):
        _d, h, m, s = self._fields()
        return STime(h, m, s)

    @property
    def hour(self):
        return self._fields()[1]

    @property
    def minute(self):
        return self._fields()[2]

    @property
    def second(self):
        return self._fields()[3]

    def strftime(self, fmt):
        d, h, m, s = self._fields()
        return _render(fmt, SStructTime(d, h, m, s))

    def timetuple(self):
        d, h, m, s = self._fields()
        return SStructTime(d, h, m, s)

    def date(self):
        return SDate(self._fields()[0])

    def replace(self, **kw):
        d, h, m, s = self._fields()
        if set(kw) - {"hour", "minute", "second", "microsecond"}:
            raise Unsupported("datetime.replace of date fields")
        if kw.get("microsecond", 0):
            raise Unsupported("microseconds")
        h, m, s = kw.get("hour", h), kw.get("minute", m), kw.get("second", s)
        return SDateTime(((d * 24 + h) * 60 + m) * 60 + s, h=h, m=m, s=s, day=d)

    def __sym_format__(self, spec):
        if not spec:
            raise Unsupported("str() of a symbolic datetime")
        return self.strftime(spec)

    def timestamp(self):
        # naive datetime -> local time: the instant t with t + off(t) = these wall-clock seconds
        return TIME.mktime(self.timetuple())

    def astimezone(self, tz=None):
        # naive -> aware in the process's zone: the tzinfo is the FIXED offset in force at that instant
        if tz is not None and tz is not _dt.timezone.utc:
            raise Unsupported("astimezone(tz)")
        t = self.timestamp()
        t = t.n if isinstance(t, FL.FInt) else t
        if tz is _dt.timezone.utc:
            return SAwareDT(t, 0)
        return SAwareDT(t + env().off(t), env().off(t))

    tzinfo = None

    def utcoffset(self):
        return None

    def _shift(self, d):
        return SDateTime(self.off + d, base=self._base)

    def __add__(self, o):
        if isinstance(o, STimedelta):
            if o.us:
                raise Unsupported("microseconds")
            return self._shift(o.secs)
        if isinstance(o, _dt.timedelta):
            return self._shift(int(o.total_seconds()))
        return NotImplemented

    __radd__ = __add__

    def __sub__(self, o):
        if isinstance(o, SDateTime):
            return STimedelta(seconds=(self._base - o._base) + (self.off - o.off))
        if isinstance(o, STimedelta):
            return self._shift(-o.secs)
        if isinstance(o, _dt.timedelta):
            return self._shift(-int(o.total_seconds()))
        return NotImplemented

    def _cmp(self, o, op):
        if not isinstance(o, SDateTime):
            return NotImplemented
        a = self.off
        b = (o._base - self._base) + o.off
        return getattr(SymInt._coerce(a), op)(b)

    def __lt__(self, o):
        return self._cmp(o, "__lt__")

    def __le__(self, o):
        return self._cmp(o, "__le__")

    def __gt__(self, o):
        return self._cmp(o, "__gt__")

    def __ge__(self, o):
        return self._cmp(o, "__ge__")

    def __eq__(self, o):
        r = self._cmp(o, "__eq__")
        return False if r is NotImplemented else r

    def __hash__(self):
        raise Unsupported("hash of symbolic datetime")


class SAwareDT:
    """aware datetime with a fixed-offset tzinfo: wall-clock seconds `local` and `offset`; the instant is local - offset"""

    def __init__(self, local, offset):
        self.local, self.offset = local, offset

    @property
    def instant(self):
        return self.local - self.offset

    def _fields(self):
        return env().decomp(self.local, "adt")

    hour = property(lambda self: self._fields()[1])
    minute = property(lambda self: self._fields()[2])
    second = property(lambda self: self._fields()[3])

    def weekday(self):
        return env().weekday_of_day(self._fields()[0])

    def isoweekday(self):
        return self.weekday() + 1

    def strftime(self, fmt):
        d, h, m, s = self._fields()
        return _render(fmt, SStructTime(d, h, m, s))

    def timetuple(self):
        d, h, m, s = self._fields()
        return SStructTime(d, h, m, s)

    def time(self):
        _d, h, m, s = self._fields()
        return STime(h, m, s)

    def date(self):
        return SDate(self._fields()[0])

    def timestamp(self):
        return FL.FInt(self.instant)

    def utcoffset(self):
        return STimedelta(seconds=self.offset)

    def astimezone(self, tz=None):
        t = self.instant
        if tz is _dt.timezone.utc:
            return SAwareDT(t, 0)
        if tz is not None:
            raise Unsupported("astimezone(tz)")
        te = env()
        te.path.assume(_bt(te.in_window(t)))
        return SAwareDT(t + te.off(t), te.off(t))

    def replace(self, **kw):
        if set(kw) == {"tzinfo"} and kw["tzinfo"] is None:
            return SDateTime(self.local)
        raise Unsupported("replace on an aware datetime")

    def __add__(self, o):
        if isinstance(o, STimedelta):
            if o.us:
                raise Unsupported("microseconds")
            return SAwareDT(self.local + o.secs, self.offset)
        if isinstance(o, _dt.timedelta):
            if o.microseconds:
                raise Unsupported("microseconds")
            return SAwareDT(self.local + (o.days * DAY + o.seconds), self.offset)
        return NotImplemented

    __radd__ = __add__

    def __sub__(self, o):
        if isinstance(o, SAwareDT):
            return STimedelta(seconds=self.instant - o.instant)
        if isinstance(o, SDateTime):
            raise TypeError("can't subtract offset-naive and offset-aware datetimes")
        if isinstance(o, (STimedelta, _dt.timedelta)):
            return self + (-o)
        return NotImplemented

    def _cmp(self, o, op):
        if isinstance(o, SDateTime):
            if op == "__eq__":
                return False
            raise TypeError("can't compare offset-naive and offset-aware datetimes")
        if not isinstance(o, SAwareDT):
            return NotImplemented
        return getattr(SymInt._coerce(self.instant), op)(o.instant)

    def __lt__(self, o):
        return self._cmp(o, "__lt__")

    def __le__(self, o):
        return self._cmp(o, "__le__")

    def __gt__(self, o):
        return self._cmp(o, "__gt__")

    def __ge__(self, o):
        return self._cmp(o, "__ge__")

    def __eq__(self, o):
        r = self._cmp(o, "__eq__")
        return False if r is NotImplemented else r

    def __hash__(self):
        raise Unsupported("hash of symbolic datetime")


class SDate:
    """datetime.date proxy: a (symbolic) day number"""

    def __init__(self, day):
        self.day = day

    def strftime(self, fmt):
        return _render(fmt, SStructTime(self.day, 0, 0, 0))

    def __sym_format__(self, spec):
        if not spec:
            raise Unsupported("str() of a symbolic date")
        return self.strftime(spec)

    def weekday(self):
        return env().weekday_of_day(self.day)

    def isoweekday(self):
        return self.weekday() + 1

    def timetuple(self):
        return SStructTime(self.day, 0, 0, 0)

    def __hash__(self):
        raise Unsupported("hash of symbolic date")

    def __eq__(self, o):
        if isinstance(o, SDate):
            return i_eq(self.day, o.day)
        return False


class _DTMeta(type):
    def __instancecheck__(cls, inst):
        return isinstance(inst, cls._proxy) or isinstance(inst, cls._real)


class SDateTimeClass(metaclass=_DTMeta):
    _proxy = (SDateTime, SAwareDT)
    _real = _dt.datetime

    def __new__(cls, *a, **k):
        if any(is_sym(x) for x in a) or any(is_sym(x) for x in k.values()):
            raise Unsupported("datetime(...) with symbolic fields")
        return _dt.datetime(*a, **k)

    @staticmethod
    def utcnow():
        if not E.active():
            return _dt.datetime.utcnow()
        te = env()
        return SDateTime(te.now())

    @staticmethod
    def now(tz=None):
        if not E.active():
            return _dt.datetime.now(tz)
        if tz is not None:
            if tz is _dt.timezone.utc:
                te = env()
                return SDateTime(te.now())
            raise Unsupported("datetime.now(tz)")
        te = env()

        def lazy():
            t = te.now()
            te.path.assume(_bt(te.in_window(t)))
            return t + te.off(t)

        return SDateTime(None, lazy=lazy)

    @staticmethod
    def today():
        return SDateTimeClass.now()

    @staticmethod
    def strptime(s, fmt):
        if not is_sym(s):
            return _dt.datetime.strptime(s, fmt)
        if isinstance(fmt, SymSeq):
            fmt = fmt.concrete()
        if fmt == "%H:%M":
            if s.kind != "str":
                raise TypeError("strptime() argument 1 must be str, not bytes")
            h, m = _parse_hm(list(s.items))
            return SDateTime(h * 3600 + m * 60, h=h, m=m, s=0, day=EPOCH_1900 // DAY, base=EPOCH_1900)
        if _date_prefix(fmt)[0] is not None:
            st = TIME.strptime(s, fmt)
            return SDateTime(((st.day * 24 + st.tm_hour) * 60 + st.tm_min) * 60, h=st.tm_hour, m=st.tm_min, s=0, day=st.day)
        raise Unsupported("datetime.strptime format %r" % fmt)

    @staticmethod
    def fromtimestamp(t, tz=None):
        if not is_sym(t) and not isinstance(t, FL.SymFloat):
            return _dt.datetime.fromtimestamp(t, tz)
        if isinstance(t, FL.FInt):
            t = t.n
        te = env()
        if tz is None:
            te.path.assume(_bt(te.in_window(t)))
            return SDateTime(t + te.off(t))
        if tz is _dt.timezone.utc:
            return SDateTime(t)
        raise Unsupported("fromtimestamp(tz)")

    @staticmethod
    def utcfromtimestamp(t):
        if not is_sym(t) and not isinstance(t, FL.SymFloat):
            return _dt.datetime.utcfromtimestamp(t)
        if isinstance(t, FL.FInt):
            t = t.n
        return SDateTime(t)

    min = _dt.datetime.min
    max = _dt.datetime.max


class STimedeltaClass(metaclass=_DTMeta):
    _proxy = STimedelta
    _real = _dt.timedelta

    def __new__(cls, *a, **k):
        if any(is_sym(x) for x in a) or any(is_sym(x) for x in k.values()):
            return STimedelta(*a, **k)
        # concrete timedeltas also become proxies only when mixed with proxies; keep real
        return _dt.timedelta(*a, **k)


class STimeClass(metaclass=_DTMeta):
    _proxy = STime
    _real = _dt.time

    def __new__(cls, *a, **k):
        if any(is_sym(x) or isinstance(x, FL.SymFloat) for x in a) or any(is_sym(x) or isinstance(x, FL.SymFloat) for x in k.values()):
            return STime(*a, **k)
        return _dt.time(*a, **k)


class SDateClass(metaclass=_DTMeta):
    _proxy = SDate
    _real = _dt.date

    def __new__(cls, *a, **k):
        if any(is_sym(x) for x in a) or any(is_sym(x) for x in k.values()):
            raise Unsupported("date(...) with symbolic fields")
        return _dt.date(*a, **k)

    @staticmethod
    def today():
        if not E.active():
            return _dt.date.today()
        te = env()
        t = te.now()
        te.need_zone()
        te.path.assume(_bt(te.in_window(t)))
        day = te.decomp(t + te.off(t), "loc")[0]
        return SDate(day)

    @staticmethod
    def fromtimestamp(t):
        if not is_sym(t) and not isinstance(t, FL.SymFloat):
            return _dt.date.fromtimestamp(t)
        if isinstance(t, FL.FInt):
            t = t.n
        te = env()
        te.path.assume(_bt(te.in_window(t)))
        return SDate(te.decomp(t + te.off(t), "loc")[0])


class _DatetimeModule:
    datetime = SDateTimeClass
    timedelta = STimedeltaClass
    time = STimeClass
    date = SDateClass
    timezone = _dt.timezone
    MINYEAR = _dt.MINYEAR
    MAXYEAR = _dt.MAXYEAR


DATETIME_MODULE = _DatetimeModule()
