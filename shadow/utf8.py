"""UTF-8 validity of a list of units as a solver predicate (unrolled DFA, CPython-strict:
no overlongs, no surrogates, max U+10FFFF)."""
from __future__ import annotations

import z3

from .values import unit_term, mk_bool, unit_is_ascii

# DFA states: 0 = start, 1 = need 1 cont, 2 = need 2 cont, 3 = need 3 cont,
# 4 = after E0 (next A0..BF, then 1), 5 = after ED (next 80..9F, then 1),
# 6 = after F0 (next 90..BF, then 2), 7 = after F4 (next 80..8F, then 2), 8 = error
_NS = 9


def _rng(t, lo, hi):
    return z3.And(z3.UGE(t, lo), z3.ULE(t, hi))


def utf8_valid(units, ascii_only=False):
    """returns SymBool|bool"""
    if ascii_only:
        conds = []
        for u in units:
            if unit_is_ascii(u):
                continue
            if isinstance(u, int):
                return False
            conds.append(z3.ULT(unit_term(u), 128))
        return mk_bool(z3.And(*conds)) if conds else True
    # state as one-hot list of z3 Bools
    T, F = z3.BoolVal(True), z3.BoolVal(False)
    st = [T] + [F] * (_NS - 1)
    for u in units:
        if unit_is_ascii(u):
            # ascii: only legal from state 0
            st = [st[0]] + [F] * 7 + [z3.Not(st[0])]
            continue
        t = unit_term(u)
        cont = _rng(t, 0x80, 0xBF)
        n = [F] * _NS
        s0 = st[0]
        n0 = [z3.And(s0, z3.ULT(t, 0x80))]
        n1 = [z3.And(s0, _rng(t, 0xC2, 0xDF))]
        n2 = [z3.And(s0, z3.Or(_rng(t, 0xE1, 0xEC), _rng(t, 0xEE, 0xEF)))]
        n3 = [z3.And(s0, _rng(t, 0xF1, 0xF3))]
        n4 = [z3.And(s0, t == 0xE0)]
        n5 = [z3.And(s0, t == 0xED)]
        n6 = [z3.And(s0, t == 0xF0)]
        n7 = [z3.And(s0, t == 0xF4)]
        n0.append(z3.And(st[1], cont))
        n1.append(z3.And(st[2], cont))
        n2.append(z3.And(st[3], cont))
        n1.append(z3.And(st[4], _rng(t, 0xA0, 0xBF)))
        n1.append(z3.And(st[5], _rng(t, 0x80, 0x9F)))
        n2.append(z3.And(st[6], _rng(t, 0x90, 0xBF)))
        n2.append(z3.And(st[7], _rng(t, 0x80, 0x8F)))
        nxt = [z3.Or(*n0), z3.Or(*n1), z3.Or(*n2), z3.Or(*n3), n4[0], n5[0], n6[0], n7[0]]
        err = z3.Not(z3.Or(*nxt))
        st = nxt + [err]
    return mk_bool(z3.simplify(st[0]) if all(isinstance(u, int) for u in units) else st[0])
