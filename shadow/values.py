"""Symbolic proxy values for SHADOW.

SymBool  - a z3 Bool; `__bool__` is the only place where execution forks.
SymInt   - a Python int, represented exactly as a signed bit-vector that widens on every
           operation (never wraps); carries an interval [lo, hi].
SymSeq   - str or bytes as a rope of units (+ optional symbolic-length blobs).
           str units are the UTF-8 code units of the string.
Opaque   - result of a formatting stub whose characters are never inspected.
SymChoice- a value drawn from a finite list of concrete alternatives.
SymSet   - set with guarded members.
"""
from __future__ import annotations

import z3

from . import engine as E
from .engine import Unsupported, PathAbort

# =============================================================================== booleans


class SymBool:
    __slots__ = ("t",)

    def __init__(self, t):
        self.t = t

    def __bool__(self):
        return E.cur().branch(self.t)

    def __invert__(self):
        return b_not(self)

    def __and__(self, o):
        return b_and(self, o)

    __rand__ = __and__

    def __or__(self, o):
        return b_or(self, o)

    __ror__ = __or__

    def __eq__(self, o):
        return b_iff(self, o)

    def __ne__(self, o):
        return b_not(b_iff(self, o))

    def __hash__(self):
        raise Unsupported("hash(SymBool)")

    def __repr__(self):
        return "SymBool(%s)" % (self.t,)


def bterm(b):
    if isinstance(b, SymBool):
        return b.t
    if isinstance(b, bool):
        return z3.BoolVal(b)
    if z3.is_bool(b):
        return b
    raise TypeError("not a boolean: %r" % (b,))


def mk_bool(t):
    if isinstance(t, bool):
        return t
    if z3.is_true(t):
        return True
    if z3.is_false(t):
        return False
    return SymBool(t)


def b_not(a):
    if isinstance(a, bool):
        return not a
    t = bterm(a)
    if z3.is_not(t):
        return mk_bool(t.arg(0))
    return mk_bool(z3.Not(t))


def b_and(*xs):
    ts = []
    for x in xs:
        if isinstance(x, bool):
            if not x:
                return False
            continue
        t = bterm(x)
        if z3.is_false(t):
            return False
        if z3.is_true(t):
            continue
        ts.append(t)
    if not ts:
        return True
    if len(ts) == 1:
        return SymBool(ts[0])
    return SymBool(z3.And(*ts))


def b_or(*xs):
    ts = []
    for x in xs:
        if isinstance(x, bool):
            if x:
                return True
            continue
        t = bterm(x)
        if z3.is_true(t):
            return True
        if z3.is_false(t):
            continue
        ts.append(t)
    if not ts:
        return False
    if len(ts) == 1:
        return SymBool(ts[0])
    return SymBool(z3.Or(*ts))


def b_implies(a, b):
    return b_or(b_not(a), b)


def b_iff(a, b):
    if isinstance(a, bool) and isinstance(b, bool):
        return a == b
    if isinstance(a, bool):
        return b if a else b_not(b)
    if isinstance(b, bool):
        return a if b else b_not(a)
    return mk_bool(bterm(a) == bterm(b))


def b_ite(c, a, b):
    """boolean if-then-else"""
    if isinstance(c, bool):
        return a if c else b
    return b_or(b_and(c, a), b_and(b_not(c), b))


# =============================================================================== integers


def _width_for(lo, hi):
    w = 1
    while not (-(1 << (w - 1)) <= lo and hi <= (1 << (w - 1)) - 1):
        w += 1
    return w


def _sext(t, w):
    d = w - t.size()
    if d == 0:
        return t
    if d < 0:
        return z3.Extract(w - 1, 0, t)
    return z3.SignExt(d, t)


class _Atom:
    """an opaque signed bit-vector term with a sound interval"""

    __slots__ = ("t", "lo", "hi", "key")

    def __init__(self, t, lo, hi):
        self.t, self.lo, self.hi = t, lo, hi
        self.key = t.get_id()


class SymInt:
    """Exact Python int in linear normal form  c0 + sum(coef_i * atom_i)  over opaque signed
    bit-vector atoms.  Carries a sound interval [lo, hi]; the bit-vector term is materialised
    lazily at the minimal width that holds the interval (nothing ever wraps)."""

    __slots__ = ("atoms", "c0", "lo", "hi", "_t")

    def __init__(self, t, lo, hi):
        """a single atom: the signed bit-vector `t` whose value lies in [lo, hi]"""
        w = _width_for(lo, hi)
        if t.size() > w:
            t = z3.Extract(w - 1, 0, t)
        a = _Atom(t, lo, hi)
        self.atoms = {a.key: (1, a)}
        self.c0 = 0
        self.lo, self.hi = lo, hi
        self._t = None

    # ---- construction
    @staticmethod
    def _lin(atoms, c0, lo=None, hi=None):
        atoms = {k: v for k, v in atoms.items() if v[0] != 0}
        if not atoms:
            return c0
        l = h = c0
        for c, a in atoms.values():
            if c > 0:
                l += c * a.lo
                h += c * a.hi
            else:
                l += c * a.hi
                h += c * a.lo
        if lo is not None:
            l = max(l, lo)
        if hi is not None:
            h = min(h, hi)
        if l > h:
            raise PathAbort()
        if l == h:
            return l
        x = SymInt.__new__(SymInt)
        x.atoms, x.c0, x.lo, x.hi, x._t = atoms, c0, l, h, None
        return x

    @staticmethod
    def mk(t, lo, hi):
        if lo > hi:
            raise PathAbort()
        if lo == hi:
            return lo
        return SymInt(t, lo, hi)

    @staticmethod
    def from_unsigned(bv, lo=None, hi=None):
        n = bv.size()
        return SymInt.mk(z3.ZeroExt(1, bv), 0 if lo is None else lo, (1 << n) - 1 if hi is None else hi)

    def refine(self, lo, hi):
        """same value, tighter interval (the caller knows the bound holds on this path)"""
        return SymInt._lin(self.atoms, self.c0, max(lo, self.lo), min(hi, self.hi))

    @property
    def t(self):
        if self._t is None:
            w = _width_for(self.lo, self.hi)
            if len(self.atoms) == 1 and self.c0 == 0:
                (c, a), = self.atoms.values()
                if c == 1:
                    self._t = _sext(a.t, w)
                    return self._t
            acc = None
            for k in sorted(self.atoms):
                c, a = self.atoms[k]
                at = _sext(a.t, w)
                term = at if c == 1 else (-at if c == -1 else at * z3.BitVecVal(c % (1 << w), w))
                acc = term if acc is None else acc + term
            if self.c0 != 0:
                acc = acc + z3.BitVecVal(self.c0 % (1 << w), w)
            self._t = acc
        return self._t

    @property
    def w(self):
        return _width_for(self.lo, self.hi)

    def term(self, w=None):
        return self.t if w is None else _sext(self.t, w)

    # ---- helpers
    @staticmethod
    def _coerce(o):
        if isinstance(o, SymInt):
            return o
        if isinstance(o, bool):
            o = int(o)
        if isinstance(o, int):
            return _Const(o)
        if isinstance(o, SymBool):
            return SymInt(z3.If(o.t, z3.BitVecVal(1, 2), z3.BitVecVal(0, 2)), 0, 1)
        return None

    def _addsub(self, o, sign):
        atoms = dict(self.atoms)
        for k, (c, a) in o.atoms.items():
            if k in atoms:
                atoms[k] = (atoms[k][0] + sign * c, a)
            else:
                atoms[k] = (sign * c, a)
        lo = self.lo + (o.lo if sign > 0 else -o.hi)
        hi = self.hi + (o.hi if sign > 0 else -o.lo)
        return SymInt._lin(atoms, self.c0 + sign * o.c0, lo, hi)

    def __add__(self, o):
        o = SymInt._coerce(o)
        if o is None:
            return NotImplemented
        return self._addsub(o, 1)

    __radd__ = __add__

    def __neg__(self):
        return SymInt._lin({k: (-c, a) for k, (c, a) in self.atoms.items()}, -self.c0, -self.hi, -self.lo)

    def __pos__(self):
        return self

    def __sub__(self, o):
        o = SymInt._coerce(o)
        if o is None:
            return NotImplemented
        return self._addsub(o, -1)

    def __rsub__(self, o):
        o = SymInt._coerce(o)
        if o is None:
            return NotImplemented
        return o._addsub(self, -1)

    def __mul__(self, o):
        if isinstance(o, (str, bytes, list, tuple)) or isinstance(o, SymSeq):
            return seq_repeat(o, self)
        o = SymInt._coerce(o)
        if o is None:
            return NotImplemented
        if not o.atoms:
            k = o.c0
            if k == 0:
                return 0
            cands = [self.lo * k, self.hi * k]
            return SymInt._lin({key: (c * k, a) for key, (c, a) in self.atoms.items()}, self.c0 * k, min(cands), max(cands))
        if not self.atoms:
            return o.__mul__(self.c0)
        cands = [self.lo * o.lo, self.lo * o.hi, self.hi * o.lo, self.hi * o.hi]
        w = self.w + o.w
        return SymInt.mk(self.term(w) * o.term(w), min(cands), max(cands))

    __rmul__ = __mul__

    def _divmod_const(self, c):
        if not isinstance(c, int) or isinstance(c, bool):
            raise Unsupported("division of a symbolic int by a symbolic value")
        if c <= 0:
            raise Unsupported("division of a symbolic int by a non-positive constant")
        if c == 1:
            return self, 0
        qlo, qhi = self.lo // c, self.hi // c
        if qlo == qhi:
            rlo, rhi = self.lo - qlo * c, self.hi - qlo * c
        else:
            rlo, rhi = 0, c - 1
        # exact: every coefficient divisible by c
        if all(cf % c == 0 for cf, _a in self.atoms.values()):
            q = SymInt._lin({k: (cf // c, a) for k, (cf, a) in self.atoms.items()}, self.c0 // c, qlo, qhi)
            return q, self.c0 % c
        if qlo == qhi:
            return qlo, self - qlo * c
        if E.active():
            # division-free: fresh quotient and remainder, defined by a = c*q + r, 0 <= r < c
            p = E.cur()
            key = ("divmod", self.t.get_id(), c)
            cache = p.notes.setdefault("divmod_cache", {})
            if key in cache:
                return cache[key][1]
            qv = p.fresh_bv("divq", _width_for(qlo, qhi))
            rv = p.fresh_bv("divr", _width_for(0, c - 1))
            qi = SymInt(qv, qlo, qhi)
            ri = SymInt(rv, rlo, rhi) if rlo != rhi else rlo
            cs = [qv >= qlo, qv <= qhi]
            if rlo != rhi:
                cs += [rv >= rlo, rv <= rhi]
            e = i_eq(qi * c + ri, self)
            cs.append(bterm(e))
            p.constrain(z3.And(*cs))
            cache[key] = (self.t, (qi, ri))
            return qi, ri
        w = max(self.w, _width_for(0, c)) + 1
        a = self.term(w)
        cv = z3.BitVecVal(c, w)
        if self.lo >= 0:
            q = z3.UDiv(a, cv)
            r = z3.URem(a, cv)
        else:
            na = -a
            qn = -z3.UDiv(na + cv - 1, cv)
            q = z3.If(a >= 0, z3.UDiv(a, cv), qn)
            r = a - q * cv
        return SymInt.mk(q, qlo, qhi), SymInt.mk(r, rlo, rhi)

    def __floordiv__(self, c):
        return self._divmod_const(c)[0]

    def __mod__(self, c):
        return self._divmod_const(c)[1]

    def __divmod__(self, c):
        return self._divmod_const(c)

    def __truediv__(self, c):
        from .floats import FQuot

        if isinstance(c, (int, float)) and not isinstance(c, bool) and float(c) == int(c) and c > 0:
            return FQuot(self, int(c))
        raise Unsupported("true division of a symbolic int by %r" % (c,))

    def _bitop(self, o, op):
        o = SymInt._coerce(o)
        if o is None:
            return NotImplemented
        w = max(self.w, o.w)
        a, b = self.term(w), o.term(w)
        full = (-(1 << (w - 1)), (1 << (w - 1)) - 1)
        if op == "and":
            t = a & b
            if o.lo >= 0 and self.lo >= 0:
                lo, hi = 0, min(self.hi, o.hi)
            elif o.lo >= 0:
                lo, hi = 0, o.hi
            elif self.lo >= 0:
                lo, hi = 0, self.hi
            else:
                lo, hi = full
        elif op == "or":
            t = a | b
            lo, hi = full
            if self.lo >= 0 and o.lo >= 0:
                lo = 0
        else:
            t = a ^ b
            lo, hi = full
            if self.lo >= 0 and o.lo >= 0:
                lo = 0
        return SymInt.mk(t, lo, hi)

    def __and__(self, o):
        return self._bitop(o, "and")

    __rand__ = __and__

    def __or__(self, o):
        return self._bitop(o, "or")

    __ror__ = __or__

    def __xor__(self, o):
        return self._bitop(o, "xor")

    __rxor__ = __xor__

    def __lshift__(self, k):
        if not isinstance(k, int) or k < 0:
            raise Unsupported("shift by symbolic amount")
        return self * (1 << k)

    def __rshift__(self, k):
        if not isinstance(k, int) or k < 0:
            raise Unsupported("shift by symbolic amount")
        return self // (1 << k)

    # ---- comparisons (normalised: difference, gcd of the coefficients, canonical sign)
    def _cmp(self, o, op):
        o = SymInt._coerce(o)
        if o is None:
            return NotImplemented
        d = o._addsub(self, -1)  # o - self
        if isinstance(d, int):
            return {"lt": d > 0, "le": d >= 0, "eq": d == 0}[op]
        # interval shortcuts
        if op == "lt":
            if d.lo > 0:
                return True
            if d.hi <= 0:
                return False
        elif op == "le":
            if d.lo >= 0:
                return True
            if d.hi < 0:
                return False
        else:
            if d.lo > 0 or d.hi < 0:
                return False
        import math

        g = 0
        for c, _a in d.atoms.values():
            g = math.gcd(g, abs(c))
        first = d.atoms[min(d.atoms)][0]
        sgn = 1 if first > 0 else -1
        # L = sgn * sum(coef/g * atom);  d = sgn*g*L + c0
        L = SymInt._lin({k: (sgn * c // g, a) for k, (c, a) in d.atoms.items()}, 0)
        c0 = d.c0
        if op == "eq":
            # sgn*g*L = -c0
            if c0 % g != 0:
                return False
            k = (-c0 // g) * sgn
            if isinstance(L, int):
                return L == k
            if k < L.lo or k > L.hi:
                return False
            w = L.w
            return SymBool(L.t == z3.BitVecVal(k % (1 << w), w))
        # d > 0 (lt) or d >= 0 (le):   sgn*g*L > -c0   /   >= -c0
        bound = -c0 if op == "le" else -c0 + 1  # sgn*g*L >= bound
        if sgn > 0:
            k = -((-bound) // g)  # ceil(bound / g)
            if isinstance(L, int):
                return L >= k
            if k <= L.lo:
                return True
            if k > L.hi:
                return False
            w = L.w
            return SymBool(L.t >= z3.BitVecVal(k % (1 << w), w))
        # -g*L >= bound  <=>  L <= floor(-bound / g)
        k = (-bound) // g
        if isinstance(L, int):
            return L <= k
        if k >= L.hi:
            return True
        if k < L.lo:
            return False
        w = L.w
        return SymBool(L.t <= z3.BitVecVal(k % (1 << w), w))

    def __lt__(self, o):
        return self._cmp(o, "lt")

    def __le__(self, o):
        return self._cmp(o, "le")

    def __gt__(self, o):
        o2 = SymInt._coerce(o)
        if o2 is None:
            return NotImplemented
        return o2._cmp(self, "lt")

    def __ge__(self, o):
        o2 = SymInt._coerce(o)
        if o2 is None:
            return NotImplemented
        return o2._cmp(self, "le")

    def __eq__(self, o):
        r = self._cmp(o, "eq")
        if r is NotImplemented:
            if isinstance(o, SymChoice):
                return o.__eq__(self)
            return False
        return r

    def __ne__(self, o):
        return b_not(self.__eq__(o))

    def __bool__(self):
        return bool(self != 0)

    def __hash__(self):
        raise Unsupported("hash(SymInt)")

    def __format__(self, spec):
        raise Unsupported("format() of a symbolic int outside the rewritten call sites")

    def __repr__(self):
        return "SymInt[%d atoms,%d..%d]" % (len(self.atoms), self.lo, self.hi)


class _Const(SymInt):
    """a concrete int temporarily dressed as SymInt for binary operations"""

    __slots__ = ()

    def __init__(self, v):
        self.atoms, self.c0, self.lo, self.hi, self._t = {}, v, v, v, None

    @property
    def t(self):
        w = _width_for(self.c0, self.c0)
        return z3.BitVecVal(self.c0 % (1 << w), w)


def i_ite(c, a, b):
    """integer if-then-else; c SymBool|bool, a/b int|SymInt:   b + ite(c, a - b, 0)"""
    if isinstance(c, bool):
        return a if c else b
    d = a - b
    if isinstance(d, int):
        if d == 0:
            return b
        w = _width_for(min(d, 0), max(d, 0))
        atom = SymInt(z3.If(bterm(c), z3.BitVecVal(d % (1 << w), w), z3.BitVecVal(0, w)), min(d, 0), max(d, 0))
    else:
        w = _width_for(min(d.lo, 0), max(d.hi, 0))
        atom = SymInt(z3.If(bterm(c), d.term(w), z3.BitVecVal(0, w)), min(d.lo, 0), max(d.hi, 0))
    r = b + atom
    if isinstance(r, SymInt):
        A, B = SymInt._coerce(a), SymInt._coerce(b)
        r = r.refine(min(A.lo, B.lo), max(A.hi, B.hi))
    return r


def i_term(x, w):
    """z3 term of int|SymInt at width w"""
    return SymInt._coerce(x).term(w)


def i_eq(a, b):
    if isinstance(a, int) and isinstance(b, int):
        return a == b
    return SymInt._coerce(a)._cmp(b, "eq")


def i_range(x, lo, hi):
    """lo <= x <= hi as SymBool|bool"""
    return b_and(x >= lo, x <= hi)


# =============================================================================== units


class Hx:
    """A character known to be the hex digit of a nibble.  Either `nib` (4-bit term) or
    (`src`, `half`): the high (1) / low (0) nibble of the 8-bit term `src`."""

    __slots__ = ("nib_", "src", "half", "upper")

    def __init__(self, nib=None, src=None, half=None, upper=False):
        self.nib_ = nib
        self.src = src
        self.half = half
        self.upper = upper

    @property
    def nib(self):
        if self.nib_ is None:
            self.nib_ = z3.Extract(7, 4, self.src) if self.half else z3.Extract(3, 0, self.src)
        return self.nib_

    def with_upper(self, up):
        return Hx(self.nib_, self.src, self.half, up)

    def term(self):
        n = z3.ZeroExt(4, self.nib)
        return z3.If(z3.ULT(self.nib, 10), n + 48, n + (55 if self.upper else 87))

    def __repr__(self):
        return "Hx"


class U8:
    """A general 8-bit unit."""

    __slots__ = ("t", "ascii")

    def __init__(self, t, ascii=False):
        self.t = t
        self.ascii = ascii

    def term(self):
        return self.t

    def __repr__(self):
        return "U8"


def unit_term(u):
    if isinstance(u, int):
        return z3.BitVecVal(u, 8)
    return u.term()


def unit_is_ascii(u):
    if isinstance(u, int):
        return u < 128
    if isinstance(u, Hx):
        return True
    return u.ascii


_HEXL = "0123456789abcdef"


def hexval_of_char(c):
    """nibble value of a concrete char code or None"""
    ch = chr(c)
    if ch in "0123456789":
        return c - 48
    if ch in "abcdef":
        return c - 87
    if ch in "ABCDEF":
        return c - 55
    return None


def unit_eq(a, b):
    """SymBool|bool equality of two units"""
    if isinstance(a, int) and isinstance(b, int):
        return a == b
    if isinstance(a, Hx) and isinstance(b, Hx):
        if a.upper == b.upper:
            if a.src is not None and b.src is not None and a.half == b.half:
                if a.src.eq(b.src):
                    return True
            if a.nib.eq(b.nib):
                return True
            return mk_bool(a.nib == b.nib)
        # different case: equal iff same nibble and it is a digit
        return mk_bool(z3.And(a.nib == b.nib, z3.ULT(a.nib, 10)))
    if isinstance(a, int):
        a, b = b, a
    if isinstance(a, Hx) and isinstance(b, int):
        v = hexval_of_char(b)
        if v is None:
            return False
        ch = chr(b)
        if ch.isalpha() and (ch.isupper() != a.upper):
            return False
        return mk_bool(a.nib == z3.BitVecVal(v, 4))
    ta, tb = unit_term(a), unit_term(b)
    if ta.eq(tb):
        return True
    return mk_bool(ta == tb)


def hx_pair_byte(h, l):
    """byte term of two hex units (high, low) -- both must be Hx or concrete hex chars"""
    if isinstance(h, Hx) and isinstance(l, Hx) and h.src is not None and l.src is not None:
        if h.half == 1 and l.half == 0 and h.src.eq(l.src):
            return h.src
    return z3.Concat(nibble_of(h), nibble_of(l))


def nibble_of(u):
    if isinstance(u, Hx):
        return u.nib
    if isinstance(u, int):
        v = hexval_of_char(u)
        if v is None:
            raise ValueError("non-hex digit")
        return z3.BitVecVal(v, 4)
    raise Unsupported("nibble of a general unit")


def unit_is_hex_cond(u):
    """SymBool|bool: unit is one of [0-9a-fA-F]"""
    if isinstance(u, Hx):
        return True
    if isinstance(u, int):
        return hexval_of_char(u) is not None
    t = u.t
    return mk_bool(
        z3.Or(
            z3.And(z3.UGE(t, 48), z3.ULE(t, 57)),
            z3.And(z3.UGE(t, 97), z3.ULE(t, 102)),
            z3.And(z3.UGE(t, 65), z3.ULE(t, 70)),
        )
    )


def general_unit_nibble(u):
    """4-bit nibble term of a general unit assumed to be a hex digit"""
    t = u.t
    v = z3.If(z3.ULE(t, 57), t - 48, z3.If(z3.ULE(t, 70), t - 55, t - 87))
    return z3.Extract(3, 0, v)


# =============================================================================== blobs


class Blob:
    """A segment of symbolic length and opaque content.
    view: 'raw' (the bytes/text itself) or 'hex' (its hexlify image: two hex units/byte)."""

    __slots__ = ("bid", "view", "length")

    def __init__(self, bid, view, length):
        self.bid = bid
        self.view = view
        self.length = length  # in units of this view (SymInt|int)

    def __repr__(self):
        return "Blob(%s,%s)" % (self.bid, self.view)


# =============================================================================== sequences


def _to_units(x, kind):
    if kind == "str":
        return list(x.encode("utf-8"))
    return list(x)


class SymSeq:
    """str / bytes with symbolic units.  For kind == 'str' the units are UTF-8 code units;
    `stripnul` marks a pending rstrip('\\x00') on a utf-8 decoded field (see equality)."""

    __slots__ = ("kind", "items", "stripnul")
    __array_priority__ = 100

    def __init__(self, kind, items, stripnul=False):
        self.kind = kind
        self.items = items
        self.stripnul = stripnul

    # ---- construction helpers
    @staticmethod
    def of(x):
        if isinstance(x, SymSeq):
            return x
        if isinstance(x, str):
            return SymSeq("str", list(x.encode("utf-8")))
        if isinstance(x, (bytes, bytearray)):
            return SymSeq("bytes", list(x))
        raise TypeError("not a sequence: %r" % (type(x),))

    def has_blob(self):
        return any(isinstance(i, Blob) for i in self.items)

    def all_ascii(self):
        return all((not isinstance(i, Blob)) and unit_is_ascii(i) for i in self.items)

    def is_concrete(self):
        return all(isinstance(i, int) for i in self.items)

    def concrete(self):
        b = bytes(self.items)
        return b.decode("utf-8") if self.kind == "str" else b

    def simplify(self):
        """return a concrete str/bytes if fully concrete"""
        if self.is_concrete() and not self.stripnul:
            try:
                return self.concrete()
            except UnicodeDecodeError:
                return self
        return self

    def _need_plain(self, what):
        if self.has_blob():
            raise Unsupported("%s on a sequence holding a symbolic-length blob" % what)
        if self.stripnul:
            raise Unsupported("%s on an rstrip'ed utf-8 field" % what)

    # ---- length
    def unit_len(self):
        """number of units: int or SymInt"""
        n = 0
        for i in self.items:
            if isinstance(i, Blob):
                n = n + i.length
            else:
                n = n + 1
        return n

    def length(self):
        """Python len(): int | SymInt"""
        if self.stripnul:
            raise Unsupported("len() of an rstrip'ed utf-8 field")
        if self.kind == "bytes" or all(isinstance(i, Blob) or unit_is_ascii(i) for i in self.items):
            return self.unit_len()  # blobs are ASCII text by construction
        if self.has_blob():
            raise Unsupported("len() of non-ascii text with blob")
        # count of non-continuation units
        n = 0
        for u in self.items:
            if isinstance(u, int):
                n = n + (0 if (u & 0xC0) == 0x80 else 1)
            elif unit_is_ascii(u):
                n = n + 1
            else:
                t = u.t
                n = n + SymInt(z3.If(z3.Extract(7, 6, t) == 2, z3.BitVecVal(0, 2), z3.BitVecVal(1, 2)), 0, 1)
        return n

    def __len__(self):
        n = self.length()
        if isinstance(n, int):
            return n
        raise Unsupported("len() with symbolic result reached the C-level protocol")

    def __bool__(self):
        n = self.length() if not self.stripnul else None
        if n is None:
            raise Unsupported("truth value of rstrip'ed field")
        if isinstance(n, int):
            return n > 0
        return bool(n > 0)

    # ---- concatenation
    def _coerce(self, o):
        if isinstance(o, SymSeq):
            if o.kind != self.kind:
                raise TypeError("can't concat %s to %s" % (o.kind, self.kind))
            return o
        if isinstance(o, str):
            if self.kind != "str":
                raise TypeError("can't concat str to bytes")
            return SymSeq.of(o)
        if isinstance(o, (bytes, bytearray)):
            if self.kind != "bytes":
                raise TypeError('can only concatenate str (not "bytes") to str')
            return SymSeq.of(o)
        return None

    def __add__(self, o):
        o2 = self._coerce(o)
        if o2 is None:
            return NotImplemented
        if self.stripnul or o2.stripnul:
            raise Unsupported("concatenation of rstrip'ed field")
        return SymSeq(self.kind, self.items + o2.items)

    def __radd__(self, o):
        o2 = self._coerce(o)
        if o2 is None:
            return NotImplemented
        if self.stripnul or o2.stripnul:
            raise Unsupported("concatenation of rstrip'ed field")
        return SymSeq(self.kind, o2.items + self.items)

    def __mul__(self, n):
        return seq_repeat(self, n)

    __rmul__ = __mul__

    # ---- indexing
    def _index_ok(self, upto):
        """units [0, upto) must be plain and (for str) ascii so unit index == char index"""
        for k, i in enumerate(self.items[:upto]):
            if isinstance(i, Blob):
                return False
            if self.kind == "str" and not unit_is_ascii(i):
                return False
        return True

    def __getitem__(self, idx):
        if self.stripnul:
            raise Unsupported("indexing an rstrip'ed field")
        if isinstance(idx, slice):
            if idx.step not in (None, 1):
                if idx.step == -1 and idx.start is None and idx.stop is None and not self.has_blob():
                    if self.kind == "str" and not self.all_ascii():
                        raise Unsupported("reversing non-ascii text")
                    return SymSeq(self.kind, self.items[::-1])
                raise Unsupported("extended slice")
            a, b = idx.start, idx.stop
            if isinstance(a, SymInt) or isinstance(b, SymInt):
                raise Unsupported("slice with symbolic bound")
            if not self.has_blob():
                if self.kind == "str" and not self.all_ascii():
                    n = len(self.items)
                    aa = 0 if a is None else a
                    bb = n if b is None else b
                    if aa >= 0 and bb >= 0 and self._index_ok(min(max(aa, bb), n)) and bb <= n:
                        # the prefix up to bb is ascii: unit index == char index
                        if b is None:
                            return SymSeq(self.kind, self.items[aa:])
                        return SymSeq(self.kind, self.items[aa:bb])
                    raise Unsupported("slicing non-ascii text")
                return SymSeq(self.kind, self.items[idx])
            # blobs: only non-negative bounds inside the leading plain prefix, or open end
            a = 0 if a is None else a
            if a < 0 or (b is not None and b < 0):
                raise Unsupported("negative slice bound on a sequence with a blob")
            pre = 0
            while pre < len(self.items) and not isinstance(self.items[pre], Blob):
                pre += 1
            if b is None:
                if a <= pre and self._index_ok(a):
                    return SymSeq(self.kind, self.items[a:])
                raise Unsupported("slice start inside a blob")
            if b <= pre and self._index_ok(b):
                return SymSeq(self.kind, self.items[a:b])
            raise Unsupported("slice end reaches into a blob")
        if isinstance(idx, SymInt):
            raise Unsupported("symbolic index")
        if self.has_blob():
            pre = 0
            while not isinstance(self.items[pre], Blob):
                pre += 1
            if not (0 <= idx < pre):
                raise Unsupported("index reaches into a blob")
        if self.kind == "str":
            if not self.all_ascii():
                if idx < 0 or not self._index_ok(idx + 1):
                    raise Unsupported("indexing non-ascii text")
            return SymSeq("str", [self.items[idx]])
        u = self.items[idx]
        if isinstance(u, int):
            return u
        return SymInt.from_unsigned(unit_term(u))

    def __iter__(self):
        self._need_plain("iteration")
        if self.kind == "str" and not self.all_ascii():
            raise Unsupported("iterating non-ascii text")
        for k in range(len(self.items)):
            yield self[k]

    # ---- equality
    def eq(self, o):
        if isinstance(o, Opaque):
            return o.eq(self)
        if isinstance(o, SymChoice):
            return o.__eq__(self)
        if isinstance(o, (str, bytes, bytearray)):
            if (self.kind == "str") != isinstance(o, str):
                return False
            o = SymSeq.of(o)
        if not isinstance(o, SymSeq):
            return False
        if o.kind != self.kind:
            return False
        if self.has_blob() or o.has_blob():
            return _blob_eq(self, o)
        a, b = self.items, o.items
        if not self.stripnul and not o.stripnul:
            if len(a) != len(b):
                return False
            return b_and(*[unit_eq(x, y) for x, y in zip(a, b)])
        # rstrip('\x00') semantics: compare zero-padded; an unstripped side must not end in NUL
        n = max(len(a), len(b))
        conds = []
        for k in range(n):
            x = a[k] if k < len(a) else 0
            y = b[k] if k < len(b) else 0
            conds.append(unit_eq(x, y))
        for side in (self, o):
            if not side.stripnul and side.items:
                conds.append(b_not(unit_eq(side.items[-1], 0)))
        return b_and(*conds)

    def __eq__(self, o):
        return self.eq(o)

    def __ne__(self, o):
        return b_not(self.eq(o))

    def _lex(self, o, strict):
        """lexicographic order (unsigned units), like bytes / ASCII str comparison"""
        o2 = self._coerce(o)
        if o2 is None:
            return NotImplemented
        self._need_plain("ordering")
        o2._need_plain("ordering")
        if self.kind == "str" and not (self.all_ascii() and o2.all_ascii()):
            raise Unsupported("ordering of non-ascii text")
        a, b = self.items, o2.items
        n = min(len(a), len(b))
        # result for equal common prefix
        tail = (len(a) < len(b)) if strict else (len(a) <= len(b))
        res = tail
        for k in range(n - 1, -1, -1):
            x, y = unit_term(a[k]), unit_term(b[k])
            lt = mk_bool(z3.ULT(x, y)) if not (isinstance(a[k], int) and isinstance(b[k], int)) else (a[k] < b[k])
            eq = unit_eq(a[k], b[k])
            res = b_or(lt, b_and(eq, res))
        return res

    def __lt__(self, o):
        return self._lex(o, True)

    def __le__(self, o):
        return self._lex(o, False)

    def __gt__(self, o):
        o2 = self._coerce(o)
        return NotImplemented if o2 is None else o2._lex(self, True)

    def __ge__(self, o):
        o2 = self._coerce(o)
        return NotImplemented if o2 is None else o2._lex(self, False)

    def __hash__(self):
        raise Unsupported("hash() of a symbolic %s" % self.kind)

    def __contains__(self, sub):
        self._need_plain("substring test")
        sub = self._coerce(sub) if not isinstance(sub, int) else None
        if sub is None:
            raise Unsupported("membership test of an int in symbolic bytes")
        sub._need_plain("substring test")
        n, m = len(self.items), len(sub.items)
        if m == 0:
            return True
        alts = []
        for p in range(0, n - m + 1):
            alts.append(b_and(*[unit_eq(self.items[p + k], sub.items[k]) for k in range(m)]))
        return bool(b_or(*alts))

    def __format__(self, spec):
        raise Unsupported("format() of symbolic text outside the rewritten call sites")

    def __str__(self):
        raise Unsupported("str() of a symbolic value reached the C-level protocol")

    def __repr__(self):
        return "SymSeq(%s,%d items%s)" % (self.kind, len(self.items), ",strip" if self.stripnul else "")

    # ---- methods reached through the dispatcher (m_<name>)
    def m_decode(self, encoding="utf-8", errors="strict"):
        if self.kind != "bytes":
            raise AttributeError("'str' object has no attribute 'decode'")
        if encoding.lower().replace("_", "-") not in ("utf-8", "utf8", "ascii"):
            raise Unsupported("decode(%r)" % encoding)
        if errors != "strict":
            raise Unsupported("decode errors=%r" % errors)
        if self.has_blob():
            # blobs are ascii text by construction
            for i in self.items:
                if not isinstance(i, Blob) and not unit_is_ascii(i):
                    raise Unsupported("decode of non-ascii units next to a blob")
            return SymSeq("str", list(self.items))
        if self.all_ascii():
            return SymSeq("str", list(self.items))
        from .utf8 import utf8_valid

        ok = utf8_valid(self.items, ascii_only=encoding.lower() == "ascii")
        if not bool(ok):
            raise UnicodeDecodeError("utf-8", b"", 0, 1, "invalid utf-8 (symbolic)")
        return SymSeq("str", list(self.items))

    def m_encode(self, encoding="utf-8", errors="strict"):
        if self.kind != "str":
            raise AttributeError("'bytes' object has no attribute 'encode'")
        if self.stripnul:
            raise Unsupported("encode of rstrip'ed field")
        enc = encoding.lower().replace("_", "-")
        if enc in ("utf-8", "utf8"):
            return SymSeq("bytes", list(self.items))
        if enc == "ascii" and self.all_ascii():
            return SymSeq("bytes", list(self.items))
        raise Unsupported("encode(%r)" % encoding)

    def m_upper(self):
        self._need_plain("upper")
        out = []
        for u in self.items:
            if isinstance(u, int):
                out.append(ord(chr(u).upper()) if u < 128 else u)
                if u >= 128:
                    raise Unsupported("upper() of non-ascii text")
            elif isinstance(u, Hx):
                out.append(u.with_upper(True))
            else:
                if not u.ascii:
                    raise Unsupported("upper() of non-ascii text")
                t = u.t
                out.append(U8(z3.If(z3.And(z3.UGE(t, 97), z3.ULE(t, 122)), t - 32, t), True))
        return SymSeq(self.kind, out)

    def m_lower(self):
        self._need_plain("lower")
        out = []
        for u in self.items:
            if isinstance(u, int):
                if u >= 128:
                    raise Unsupported("lower() of non-ascii text")
                out.append(ord(chr(u).lower()))
            elif isinstance(u, Hx):
                out.append(u.with_upper(False))
            else:
                if not u.ascii:
                    raise Unsupported("lower() of non-ascii text")
                t = u.t
                out.append(U8(z3.If(z3.And(z3.UGE(t, 65), z3.ULE(t, 90)), t + 32, t), True))
        return SymSeq(self.kind, out)

    def _pad(self, width, fill, left):
        if isinstance(width, SymInt):
            raise Unsupported("pad to symbolic width")
        n = self.length()
        f = SymSeq.of(fill) if not isinstance(fill, SymSeq) else fill
        if len(f.items) != 1:
            raise TypeError("The fill character must be exactly one character long")
        if isinstance(n, SymInt):
            raise Unsupported("pad of a symbolic-length sequence")
        k = max(0, width - n)
        pad = f.items * k
        return SymSeq(self.kind, (pad + self.items) if left else (self.items + pad))

    def m_ljust(self, width, fill=" "):
        return self._pad(width, fill if self.kind == "str" else fill, False)

    def m_rjust(self, width, fill=" "):
        return self._pad(width, fill, True)

    def m_zfill(self, width):
        self._need_plain("zfill")
        # sign handling: only when first unit is concrete or hex
        if self.items and not isinstance(self.items[0], (int, Hx)):
            raise Unsupported("zfill with symbolic first character")
        if self.items and isinstance(self.items[0], int) and chr(self.items[0]) in "+-":
            rest = SymSeq(self.kind, self.items[1:])._pad(width - 1, "0" if self.kind == "str" else b"0", True)
            return SymSeq(self.kind, [self.items[0]] + rest.items)
        return self._pad(width, "0" if self.kind == "str" else b"0", True)

    def _blank_cond(self, u, chars, side="left"):
        """SymBool|bool|None: unit u is one of the characters to strip (None: cannot tell)"""
        if chars is None:
            if isinstance(u, Hx):
                return False
            if isinstance(u, int):
                return (chr(u).isspace() if self.kind == "str" else chr(u) in " \t\n\r\x0b\x0c") if u < 128 else None
            t = u.t
            if self.kind == "bytes":
                return mk_bool(z3.Or(t == 32, z3.And(z3.UGE(t, 9), z3.ULE(t, 13))))
            asc = z3.Or(t == 32, z3.And(z3.UGE(t, 9), z3.ULE(t, 13)), z3.And(z3.UGE(t, 28), z3.ULE(t, 31)))
            if not u.ascii:
                # UTF-8 code units: a Unicode blank starts with C2/E1/E2/E3 and ends with one of a few continuation bytes;
                # any other non-ASCII unit is certainly not (part of) a blank at the edge of the text
                if side == "left":
                    maybe = z3.Or(t == 0xC2, t == 0xE1, t == 0xE2, t == 0xE3)
                else:
                    maybe = z3.Or(t == 0x85, t == 0xA0, z3.And(z3.UGE(t, 0x80), z3.ULE(t, 0x8A)), t == 0xA8, t == 0xA9, t == 0xAF, t == 0x9F)
                if bool(mk_bool(maybe)):
                    raise Unsupported("strip() of text that may start or end with a non-ASCII blank")
            return mk_bool(asc)
        cs = SymSeq.of(chars) if not isinstance(chars, SymSeq) else chars
        if not cs.is_concrete():
            raise Unsupported("strip with symbolic character set")
        return b_or(*[unit_eq(u, c) for c in cs.items])

    def _strip(self, chars, left, right):
        if self.is_concrete():
            c = self.concrete()
            cc = chars.concrete() if isinstance(chars, SymSeq) else chars
            return SymSeq.of(c.strip(cc) if (left and right) else (c.lstrip(cc) if left else c.rstrip(cc)))
        if self.has_blob() or self.stripnul:
            raise Unsupported("strip on blob / stripped field")
        items = list(self.items)
        if len(items) > 16:
            raise Unsupported("strip on long symbolic text")
        a, b = 0, len(items)
        if left:
            while a < b:
                c = self._blank_cond(items[a], chars, "left")
                if c is None:
                    raise Unsupported("strip on non-ascii text")
                if not bool(c):
                    break
                a += 1
        if right:
            while b > a:
                c = self._blank_cond(items[b - 1], chars, "right")
                if c is None:
                    raise Unsupported("strip on non-ascii text")
                if not bool(c):
                    break
                b -= 1
        return SymSeq(self.kind, items[a:b])

    def m_rstrip(self, chars=None):
        if self.has_blob():
            raise Unsupported("rstrip with blob")
        c = None
        if chars is not None:
            c = SymSeq.of(chars) if not isinstance(chars, SymSeq) else chars
        if c is not None and c.items == [0] and (self.kind == "str" or len(self.items) > 16):
            # NUL-padded fixed-width field: keep the rstrip pending (compared zero-padded, see eq)
            if self.stripnul:
                return self
            items = list(self.items)
            while items and isinstance(items[-1], int) and items[-1] == 0:
                items.pop()
            if not items or isinstance(items[-1], (int, Hx)):
                return SymSeq(self.kind, items)
            return SymSeq(self.kind, items, stripnul=True)
        return self._strip(chars, False, True)

    def m_lstrip(self, chars=None):
        return self._strip(chars, True, False)

    def m_strip(self, chars=None):
        return self._strip(chars, True, True)

    def m_find(self, sub, start=0, end=None):
        self._need_plain("find")
        if self.kind == "str" and not self.all_ascii():
            raise Unsupported("find on non-ascii text")
        s = self._coerce(sub) if not isinstance(sub, int) else SymSeq("bytes", [sub])
        s._need_plain("find")
        n, m = len(self.items), len(s.items)
        if isinstance(start, SymInt) or isinstance(end, SymInt):
            raise Unsupported("find with symbolic bounds")
        stop = n if end is None else min(end, n)
        if start < 0 or (end is not None and end < 0):
            raise Unsupported("find with negative bounds")
        for p in range(start, stop - m + 1):
            if bool(b_and(*[unit_eq(self.items[p + k], s.items[k]) for k in range(m)])):
                return p
        return -1

    def m_rfind(self, sub, start=0, end=None):
        self._need_plain("rfind")
        if self.kind == "str" and not self.all_ascii():
            raise Unsupported("rfind on non-ascii text")
        s = self._coerce(sub) if not isinstance(sub, int) else SymSeq("bytes", [sub])
        s._need_plain("rfind")
        n, m = len(self.items), len(s.items)
        if isinstance(start, SymInt) or isinstance(end, SymInt):
            raise Unsupported("rfind with symbolic bounds")
        stop = n if end is None else min(end, n)
        if start < 0 or (end is not None and end < 0):
            raise Unsupported("rfind with negative bounds")
        for p in range(stop - m, start - 1, -1):
            if bool(b_and(*[unit_eq(self.items[p + k], s.items[k]) for k in range(m)])):
                return p
        return -1

    def m_index(self, sub, start=0, end=None):
        r = self.m_find(sub, start, end)
        if r < 0:
            raise ValueError("subsection not found")
        return r

    def m_rindex(self, sub, start=0, end=None):
        r = self.m_rfind(sub, start, end)
        if r < 0:
            raise ValueError("subsection not found")
        return r

    def m_split(self, sep=None, maxsplit=-1):
        self._need_plain("split")
        if sep is None and maxsplit == -1:
            # whitespace split: every unit must be decidably blank or non-blank
            parts, curr = [], []
            for u in self.items:
                c = self._blank_cond(u, None, "left") if not isinstance(u, Hx) else False
                if c is None:
                    raise Unsupported("split() on non-ascii text")
                if bool(c):
                    if curr:
                        parts.append(curr)
                        curr = []
                else:
                    curr.append(u)
            if curr:
                parts.append(curr)
            return [SymSeq(self.kind, p).simplify() for p in parts]
        if sep is None or maxsplit != -1:
            raise Unsupported("split() with maxsplit on symbolic text")
        s = SymSeq.of(sep) if not isinstance(sep, SymSeq) else sep
        if len(s.items) != 1 or not isinstance(s.items[0], int):
            raise Unsupported("split with multi-char or symbolic separator")
        parts = [[]]
        for u in self.items:
            if bool(unit_eq(u, s.items[0])):
                parts.append([])
            else:
                parts[-1].append(u)
        return [SymSeq(self.kind, p).simplify() for p in parts]

    def m_isdigit(self):
        self._need_plain("isdigit")
        if not self.items:
            return False
        conds = []
        for u in self.items:
            if isinstance(u, int):
                conds.append(48 <= u <= 57)
                if u >= 128:
                    raise Unsupported("isdigit on non-ascii")
            elif isinstance(u, Hx):
                conds.append(mk_bool(z3.ULT(u.nib, 10)))
            else:
                if not u.ascii:
                    raise Unsupported("isdigit on non-ascii")
                conds.append(mk_bool(z3.And(z3.UGE(u.t, 48), z3.ULE(u.t, 57))))
        return bool(b_and(*conds))

    def m_startswith(self, p):
        self._need_plain("startswith")
        p = self._coerce(p)
        if len(p.items) > len(self.items):
            return False
        return bool(b_and(*[unit_eq(a, b) for a, b in zip(self.items, p.items)]))

    def m_endswith(self, p):
        self._need_plain("endswith")
        p = self._coerce(p)
        if len(p.items) > len(self.items):
            return False
        if not p.items:
            return True
        return bool(b_and(*[unit_eq(a, b) for a, b in zip(self.items[-len(p.items):], p.items)]))

    def m_hex(self, *sep):
        from .stubs import s_hexlify

        if self.kind != "bytes":
            raise AttributeError("'str' object has no attribute 'hex'")
        return s_hexlify(self, *sep).m_decode()

    def m_partition(self, sep):
        p = self.m_find(sep)
        s = self._coerce(sep)
        if p < 0:
            empty = SymSeq(self.kind, [])
            return (SymSeq(self.kind, list(self.items)).simplify(), empty.simplify(), empty.simplify())
        m = len(s.items)
        return (SymSeq(self.kind, self.items[:p]).simplify(), SymSeq(self.kind, self.items[p:p + m]).simplify(),
                SymSeq(self.kind, self.items[p + m:]).simplify())

    def m_rpartition(self, sep):
        self._need_plain("rpartition")
        s = self._coerce(sep)
        n, m = len(self.items), len(s.items)
        for p in range(n - m, -1, -1):
            if bool(b_and(*[unit_eq(self.items[p + k], s.items[k]) for k in range(m)])):
                return (SymSeq(self.kind, self.items[:p]).simplify(), SymSeq(self.kind, self.items[p:p + m]).simplify(),
                        SymSeq(self.kind, self.items[p + m:]).simplify())
        empty = SymSeq(self.kind, [])
        return (empty.simplify(), empty.simplify(), SymSeq(self.kind, list(self.items)).simplify())

    def m_removeprefix(self, p):
        if self.m_startswith(p):
            return SymSeq(self.kind, self.items[len(self._coerce(p).items):]).simplify()
        return self

    def m_removesuffix(self, p):
        k = len(self._coerce(p).items)
        if k and self.m_endswith(p):
            return SymSeq(self.kind, self.items[:-k]).simplify()
        return self

    def m_format_map(self, mapping):
        from .fmt import str_format

        if not self.is_concrete():
            raise Unsupported("format_map with a symbolic template")
        return str_format(self.concrete(), (), dict(mapping))

    def m_isascii(self):
        if self.all_ascii():
            return True
        raise Unsupported("isascii on symbolic non-ascii text")

    def m_center(self, *a):
        raise Unsupported("center on symbolic text")

    def m_join(self, parts):
        return seq_join(self, parts)

    def m_format(self, *a, **k):
        from .fmt import str_format

        if not self.is_concrete():
            raise Unsupported("format with a symbolic template")
        return str_format(self.concrete(), a, k)

    def m_count(self, sub):
        if self.is_concrete():
            return self.concrete().count(sub)
        raise Unsupported("count on symbolic text")

    def m_replace(self, a, b):
        if self.is_concrete() and not isinstance(a, SymSeq) and not isinstance(b, SymSeq):
            return self.concrete().replace(a, b)
        raise Unsupported("replace on symbolic text")


def _blob_eq(a: SymSeq, b: SymSeq):
    if len(a.items) != len(b.items):
        raise Unsupported("comparison of differently segmented blob sequences")
    conds = []
    for x, y in zip(a.items, b.items):
        if isinstance(x, Blob) or isinstance(y, Blob):
            if isinstance(x, Blob) and isinstance(y, Blob) and x.bid == y.bid and x.view == y.view:
                continue
            raise Unsupported("comparison of different blobs")
        conds.append(unit_eq(x, y))
    return b_and(*conds)


def seq_repeat(seq, n):
    if isinstance(n, SymInt):
        v = E.cur().choose_value(n.t, "repeat-count")
        # value is signed
        if v >= (1 << (n.w - 1)):
            v -= 1 << n.w
        n = v
    if isinstance(seq, SymSeq):
        if seq.stripnul:
            raise Unsupported("repeat of rstrip'ed field")
        return SymSeq(seq.kind, seq.items * max(0, n))
    return seq * n


def seq_join(sep, parts):
    parts = list(parts)
    sep = SymSeq.of(sep) if not isinstance(sep, SymSeq) else sep
    out = []
    for k, p in enumerate(parts):
        if k:
            out.extend(sep.items)
        if isinstance(p, SymChoice):
            p = p.as_seq()
        if isinstance(p, Opaque):
            if sep.items == [46] and len(parts) == 4 and all(isinstance(q, (Opaque, str)) for q in parts):
                args = []
                for q in parts:
                    if isinstance(q, Opaque) and q.okind == "DecStr":
                        args.append(q.args[0])
                    elif isinstance(q, str) and q.isdigit() and str(int(q)) == q:
                        args.append(int(q))
                    else:
                        raise Unsupported("join of an opaque rendering")
                inr = b_and(*[b_and(a >= 0, a <= 255) for a in args])
                if inr is True or (inr is not False and bool(inr)):
                    return Opaque("Ipv4", args)
            raise Unsupported("join of an opaque rendering")
        ps = SymSeq.of(p) if not isinstance(p, SymSeq) else p
        if ps.kind != sep.kind:
            raise TypeError("sequence item %d: expected %s instance" % (k, sep.kind))
        if ps.stripnul:
            raise Unsupported("join of rstrip'ed field")
        out.extend(ps.items)
    return SymSeq(sep.kind, out).simplify()


# =============================================================================== opaque


class Opaque:
    """Result of a rendering stub; characters are never inspected, equality is argument-wise.
    kinds: DecStr(n)  Ipv4(b0,b1,b2,b3)  TimedeltaStr(secs)  Amps(watts)  Quot10(n) ..."""

    __slots__ = ("okind", "args", "pytype")

    def __init__(self, okind, args, pytype="str"):
        self.okind = okind
        self.args = tuple(args)
        self.pytype = pytype

    def eq(self, o):
        if isinstance(o, (str, int, float)) and not isinstance(o, bool):
            o2 = opaque_parse(self.okind, o)
            if o2 is None:
                return False
            o = o2
        if isinstance(o, SymSeq):
            if o.is_concrete():
                return self.eq(o.concrete())
            raise Unsupported("comparison of an opaque %s rendering with symbolic text" % self.okind)
        if not isinstance(o, Opaque):
            return False
        if o.okind != self.okind:
            raise Unsupported("comparison of opaque %s with opaque %s" % (self.okind, o.okind))
        return b_and(*[i_eq(a, b) for a, b in zip(self.args, o.args)])

    def __eq__(self, o):
        return self.eq(o)

    def __ne__(self, o):
        return b_not(self.eq(o))

    def __hash__(self):
        raise Unsupported("hash() of an opaque rendering")

    def __str__(self):
        raise Unsupported("str() of an opaque rendering reached the C-level protocol")

    def __format__(self, spec):
        raise Unsupported("format() of an opaque rendering")

    def __repr__(self):
        return "Opaque(%s)" % self.okind

    def __bool__(self):
        if self.okind in ("DecStr", "Ipv4", "TimedeltaStr"):
            return True
        if self.okind in ("Amps", "Quot10"):
            # float truthiness: nonzero
            raise Unsupported("truth value of opaque float")
        return True

    def m_encode(self, *a):
        raise Unsupported("encode of an opaque rendering (%s)" % self.okind)


def opaque_parse(okind, v):
    """parse a concrete Python value into the opaque kind (or None if it cannot be one)"""
    import re

    try:
        if okind == "DecStr":
            if isinstance(v, str) and re.fullmatch(r"-?(0|[1-9][0-9]*)", v):
                return Opaque("DecStr", [int(v)])
            return None
        if okind == "Ipv4":
            if isinstance(v, str):
                m = re.fullmatch(r"(\d+)\.(\d+)\.(\d+)\.(\d+)", v)
                if m and all(str(int(g)) == g and int(g) < 256 for g in m.groups()):
                    return Opaque("Ipv4", [int(g) for g in m.groups()])
            return None
    except Exception:
        return None
    return None


# =============================================================================== choice


class SymChoice:
    """A value drawn from `alts` (concrete Python objects); idx is SymInt|int in range."""

    def __init__(self, idx, alts):
        object.__setattr__(self, "_idx", idx)
        object.__setattr__(self, "_alts", list(alts))

    @staticmethod
    def mk(idx, alts):
        alts = list(alts)
        if isinstance(idx, int):
            return alts[idx]
        # narrow by interval
        if idx.lo == idx.hi:
            return alts[idx.lo]
        return SymChoice(idx, alts)

    def _lift(self, f):
        """apply f to each alternative and merge the results"""
        idx, alts = self._idx, self._alts
        res = []
        for k, a in enumerate(alts):
            if isinstance(idx, SymInt) and not (idx.lo <= k <= idx.hi):
                res.append(None)
                continue
            res.append((k, f(a)))
        res = [r for r in res if r is not None]
        return merge_choice(idx, res)

    def __getattr__(self, name):
        if name.startswith("__") and name.endswith("__"):
            raise AttributeError(name)
        return self._lift(lambda a: getattr(a, name))

    def __setattr__(self, name, v):
        raise Unsupported("attribute store on a symbolic choice")

    def cond_is(self, k):
        return i_eq(self._idx, k)

    def __eq__(self, o):
        if isinstance(o, SymChoice):
            conds = []
            for k, a in enumerate(self._alts):
                for j, b in enumerate(o._alts):
                    if _concrete_eq(a, b):
                        conds.append(b_and(self.cond_is(k), o.cond_is(j)))
            return b_or(*conds)
        conds = []
        for k, a in enumerate(self._alts):
            if isinstance(o, (SymSeq, SymInt, Opaque)):
                e = o.__eq__(a) if not isinstance(a, (SymSeq, SymInt)) else a.__eq__(o)
                if e is NotImplemented:
                    e = False
                conds.append(b_and(self.cond_is(k), e))
            elif _concrete_eq(a, o):
                conds.append(self.cond_is(k))
        return b_or(*conds)

    def __ne__(self, o):
        return b_not(self.__eq__(o))

    def __hash__(self):
        raise Unsupported("hash() of a symbolic choice")

    def __bool__(self):
        ts = [bool(a) for a in self._alts]
        if all(ts):
            return True
        if not any(ts):
            return False
        return bool(b_or(*[self.cond_is(k) for k, t in enumerate(ts) if t]))

    def concretize(self, label="choice"):
        """fork over the feasible alternatives; returns the concrete alternative"""
        idx = self._idx
        if isinstance(idx, int):
            return self._alts[idx]
        v = E.cur().choose_value(idx.t, label)
        if v >= (1 << (idx.w - 1)):
            v -= 1 << idx.w
        return self._alts[v]

    def as_seq(self):
        r = self._lift(lambda a: a)
        if isinstance(r, SymChoice):
            raise Unsupported("choice of non-uniform strings used as text")
        return r

    def __repr__(self):
        return "SymChoice(%d alts)" % len(self._alts)

    def __format__(self, spec):
        raise Unsupported("format() of a symbolic choice")

    def __lt__(self, o):
        return self._lift(lambda a: a).__lt__(o)

    def __call__(self, *a, **k):
        raise Unsupported("call of a symbolic choice of callables")


def _concrete_eq(a, b):
    try:
        r = a == b
    except Exception:
        return False
    return r is True


def merge_choice(idx, res):
    """res: list of (k, value).  Merge into one symbolic value guarded by idx == k."""
    vals = [v for _, v in res]
    if not vals:
        raise PathAbort()
    first = vals[0]
    if all(_same(first, v) for v in vals[1:]):
        return first
    if all(isinstance(v, bool) for v in vals):
        return b_or(*[i_eq(idx, k) for k, v in res if v])
    if all(isinstance(v, int) and not isinstance(v, bool) for v in vals):
        lo, hi = min(vals), max(vals)
        w = _width_for(lo, hi)
        it = SymInt._coerce(idx)
        out = z3.BitVecVal(vals[-1] % (1 << w), w)
        for k, v in reversed(res[:-1]):
            out = z3.If(it.t == z3.BitVecVal(k % (1 << it.w), it.w), z3.BitVecVal(v % (1 << w), w), out)
        return SymInt(out, lo, hi)
    if all(isinstance(v, (int, SymInt)) and not isinstance(v, bool) for v in vals):
        out = vals[-1]
        for k, v in reversed(res[:-1]):
            out = i_ite(i_eq(idx, k), v, out)
        return out
    if all(isinstance(v, (str, bytes)) or (isinstance(v, SymSeq) and not v.has_blob() and not v.stripnul) for v in vals):
        seqs = [SymSeq.of(v) for v in vals]
        if len({s.kind for s in seqs}) == 1 and len({len(s.items) for s in seqs}) == 1:
            n = len(seqs[0].items)
            items = []
            for p in range(n):
                col = [s.items[p] for s in seqs]
                if all(isinstance(c, int) and c == col[0] for c in col):
                    items.append(col[0])
                    continue
                t = unit_term(col[-1])
                for (k, _), c in zip(reversed(res[:-1]), reversed(col[:-1])):
                    t = z3.If(bterm(i_eq(idx, k)), unit_term(c), t)
                items.append(U8(t, all(unit_is_ascii(c) for c in col)))
            return SymSeq(seqs[0].kind, items)
    # fall back: a choice over the (concrete) results
    if all(not isinstance(v, (SymSeq, SymInt, SymBool, SymChoice, Opaque)) for v in vals):
        # re-index: keep same idx, place results at their positions
        size = max(k for k, _ in res) + 1
        alts = [None] * size
        for k, v in res:
            alts[k] = v
        return SymChoice(idx, alts)
    raise Unsupported("cannot merge heterogeneous results of a symbolic choice")


def _same(a, b):
    if a is b:
        return True
    if type(a) is type(b) and isinstance(a, (int, str, bytes, bool, float, type(None))):
        return a == b
    return False


# =============================================================================== sets


class SymSet:
    """set with guarded members: list of (guard: SymBool|bool, element)."""

    def __init__(self, members=()):
        self.members = list(members)

    @staticmethod
    def from_iter(it):
        s = SymSet()
        for e in it:
            s.m_add(e)
        return s

    def _present(self, e):
        conds = []
        for g, x in self.members:
            eq = sym_eq(x, e)
            conds.append(b_and(g, eq))
        return b_or(*conds)

    def m_add(self, e):
        p = self._present(e)
        if p is True:
            return
        self.members.append((b_not(p), e))

    def m_clear(self):
        self.members = []

    def m_discard(self, e):
        self.members = [(b_and(g, b_not(sym_eq(x, e))), x) for g, x in self.members]

    def m_remove(self, e):
        if not bool(self._present(e)):
            raise KeyError(e)
        self.m_discard(e)

    def m_copy(self):
        return SymSet(self.members)

    def m_update(self, *others):
        for o in others:
            for g, e in _set_members(o):
                p = self._present(e)
                if p is not True:
                    self.members.append((b_and(g, b_not(p)), e))

    def length(self):
        n = 0
        for g, _ in self.members:
            n = n + (1 if g is True else (0 if g is False else SymInt._coerce(g)))
        return n

    def __len__(self):
        n = self.length()
        if isinstance(n, int):
            return n
        raise Unsupported("len() of a symbolic set reached the C-level protocol")

    def __bool__(self):
        n = self.length()
        if isinstance(n, int):
            return n > 0
        return bool(n > 0)

    def __iter__(self):
        for g, e in self.members:
            if g is True or (g is not False and bool(g)):
                yield e

    def __contains__(self, e):
        return bool(self._present(e))

    def contains(self, e):
        return self._present(e)

    def __hash__(self):
        raise Unsupported("hash(SymSet)")

    def __eq__(self, o):
        if isinstance(o, (SymSet, set, frozenset)):
            return set_eq(self, o)
        return False

    def __repr__(self):
        return "SymSet(%d guarded)" % len(self.members)


def _set_members(x):
    if isinstance(x, SymSet):
        return list(x.members)
    return [(True, e) for e in x]


def set_eq(a, b):
    """equality of two (symbolic) sets: mutual inclusion"""
    ma, mb = _set_members(a), _set_members(b)
    conds = []
    for (g, e) in ma:
        conds.append(b_implies(g, b_or(*[b_and(h, sym_eq(e, f)) for h, f in mb])))
    for (h, f) in mb:
        conds.append(b_implies(h, b_or(*[b_and(g, sym_eq(e, f)) for g, e in ma])))
    return b_and(*conds)


def sym_eq(a, b):
    """generic (possibly symbolic) equality -> SymBool|bool"""
    if isinstance(a, SymSet) or isinstance(b, SymSet):
        if isinstance(a, (SymSet, set, frozenset)) and isinstance(b, (SymSet, set, frozenset)):
            return set_eq(a, b)
        return False
    if isinstance(a, tuple) and isinstance(b, tuple):
        if len(a) != len(b):
            return False
        return b_and(*[sym_eq(x, y) for x, y in zip(a, b)])
    for x, y in ((a, b), (b, a)):
        if isinstance(x, (SymSeq, SymInt, Opaque, SymChoice, SymBool)):
            r = x.__eq__(y)
            if r is NotImplemented:
                return False
            return r
    r = a == b
    if isinstance(r, SymBool):
        return r
    return bool(r)


def is_sym(x):
    return isinstance(x, (SymSeq, SymInt, SymBool, Opaque, SymChoice, SymSet))
