"""Reference layout of the UDP status broadcasts (type-1 165 bytes, Breeze 168, Runner 159).

Polymorphic abstract decoder: `d` is bytes or a symbolic byte sequence; O the ops backend.
Returns plain integers / byte slices only; rendering into the Python values the library
reports (hex text, dotted quad, HH:MM:SS, ...) is done by the caller's backend.

Offsets (bytes):  0..1 magic fe f0 | 18..20 device id | 40 login key | 42..73 name (UTF-8, NUL padded)
 74..75 model code | type 1: 76..79 IPv4 ; type 2: 77..80 IPv4 | 80..85 MAC
 type 1:  133 on/off | 135..136 watts LE16 | 147..150 remaining s LE32 | 155..158 auto-shutdown s LE32
 runner:  135 position | 136 zero | 137..138 direction (0000 stop, 0100 up, 0001 down)
 breeze:  135..136 temperature x10 LE16 | 137 on/off | 138 mode 1..5 | 139 target | 140 fan<<4|swing | 143..150 remote id
"""

FAMILY_LEN = {"type1": 165, "breeze": 168, "runner": 159}
MODELS = {
    0x030F: ("MINI", "type1", "WATER_HEATER"), 0x01A8: ("POWER_PLUG", "type1", "POWER_PLUG"),
    0x030B: ("TOUCH", "type1", "WATER_HEATER"), 0x01A7: ("V2_ESP", "type1", "WATER_HEATER"),
    0x01A1: ("V2_QCA", "type1", "WATER_HEATER"), 0x0317: ("V4", "type1", "WATER_HEATER"),
    0x0E01: ("BREEZE", "breeze", "THERMOSTAT"), 0x0C01: ("RUNNER", "runner", "SHUTTER"),
    0x0C02: ("RUNNER_MINI", "runner", "SHUTTER"),
}
MODES = {1: "AUTO", 2: "DRY", 3: "FAN", 4: "COOL", 5: "HEAT"}
FANS = {0: "AUTO", 1: "LOW", 2: "MEDIUM", 3: "HIGH"}
DIRECTIONS = {0x0000: "SHUTTER_STOP", 0x0100: "SHUTTER_UP", 0x0001: "SHUTTER_DOWN"}


def be16(O, d, i):
    return O.uint(d, i, 2, "big")


def le16(O, d, i):
    return O.uint(d, i, 2, "little")


def le32(O, d, i):
    return O.uint(d, i, 4, "little")


def decode(O, d, family):
    """abstract field values of a datagram of the given family"""
    r = {
        "model": be16(O, d, 74),
        "id": d[18:21],
        "key": d[40:41],
        "mac": d[80:86],
        "name_field": d[42:74],
    }
    if family == "type1":
        r["ip"] = [O.u(d, 76), O.u(d, 77), O.u(d, 78), O.u(d, 79)]
        r["on"] = O.eq(O.u(d, 133), 1)
        r["watts"] = le16(O, d, 135)
        r["remaining_s"] = le32(O, d, 147)
        r["auto_s"] = le32(O, d, 155)
    else:
        r["ip"] = [O.u(d, 77), O.u(d, 78), O.u(d, 79), O.u(d, 80)]
    if family == "runner":
        r["position"] = O.u(d, 135)
        r["pos_hi"] = O.u(d, 136)
        r["direction"] = be16(O, d, 137)
    if family == "breeze":
        r["temp10"] = le16(O, d, 135)
        r["on"] = O.eq(O.u(d, 137), 1)
        r["mode"] = O.u(d, 138)
        r["target"] = O.u(d, 139)
        r["fan"] = O.u(d, 140) // 16
        r["swing"] = O.u(d, 140) % 16
        r["remote"] = d[143:151]
    return r


def wellformed(O, d, family, r):
    """what a real device of this family sends (domain of C05)"""
    conds = [O.eq(d[0:2], O.lit("fef0"))]
    conds.append(O.any([O.eq(r["model"], code) for code, (_n, fam, _c) in MODELS.items() if fam == family]))
    conds.append(O.name_field_ok(r["name_field"]))
    if family == "type1":
        conds.append(O.lt(O.u(d, 133), 2))
        conds.append(O.lt(r["remaining_s"], 86400))
        conds.append(O.lt(r["auto_s"], 86400))
    if family == "runner":
        conds.append(O.lt(r["position"], 101))
        conds.append(O.eq(r["pos_hi"], 0))
        conds.append(O.any([O.eq(r["direction"], k) for k in DIRECTIONS]))
    if family == "breeze":
        conds.append(O.lt(O.u(d, 137), 2))
        conds.append(O.all([O.ge(r["mode"], 1), O.lt(r["mode"], 6)]))
        conds.append(O.lt(r["fan"], 4))
        conds.append(O.lt(r["swing"], 2))
        conds.append(O.ascii_field_ok(r["remote"]))
    return O.all(conds)
