"""Reference frame layouts of the Switcher TCP protocol, written independently of the
repository's templates: every frame is described byte by byte (offset -> meaning).

All functions are polymorphic: `O` is an ops backend (spec.ops_concrete.O for plain bytes/ints
in replays, harness.symops.O for solver terms).  Values support slicing, `+` and `==`.

Frame geometry (all frames):
   0..1   magic fe f0
   2..3   total length incl. signature, little-endian 16 bit
   4..7   protocol / operation class bytes
   8..11  session id (zero in login frames)
  12..23  request format bytes
  24..27  timestamp, little-endian 32 bit epoch seconds
  28..37  zero
  38..39  header terminator f0 fe
  40..42  device id   (login type 1: byte 40 = login key)
  43..78  36 zero bytes (login frames differ, see below)
  79..    payload
  last 4  signature
"""

MAGIC = "fef0"
TERM = "f0fe"
Z10 = "00" * 10
PAD36 = "00" * 36


def _hdr(O, length_le16, klass, session, fmt12, ts):
    return O.lit(MAGIC) + length_le16 + O.lit(klass) + session + O.lit(fmt12) + ts + O.lit(Z10 + TERM)


def signature(O, body):
    """LE16(crc(body)) ++ LE16(crc(LE16(crc(body)) ++ 0x30 * 32)); CRC-16/CCITT poly 0x1021 init 0x1021"""
    c1 = O.crc(body, 0x1021)
    k = O.le16(c1)
    c2 = O.crc(k + O.lit("30" * 32), 0x1021)
    return k + O.le16(c2)


def body_of(O, kind, a):
    """unsigned frame body for operation `kind` with argument record `a` (dict).
    a: session (4 bytes), ts (int), dev_id (3 bytes), key (1 byte), + per-op fields."""
    ts = O.le32(a["ts"])
    FMT1 = "340001000000000000000000"
    FMT2 = "390001000000000000000000"
    FMTB = "000001000000000000000000"
    if kind == "login1":
        return _hdr(O, O.lit("5200"), "0232a100", O.lit("00000000"), FMT1, ts) + a["key"] + O.lit(PAD36 + "00")
    if kind == "login2":
        return _hdr(O, O.lit("3000"), "0305a600", O.lit("00000000"), "ff0301000000000000000000", ts) + a["dev_id"] + O.lit("00")
    s, d = a["session"], a["dev_id"]
    if kind == "get_state":
        return _hdr(O, O.lit("3000"), "02320103", s, FMT1, ts) + d + O.lit("00")
    if kind in ("get_state2", "get_breeze_state", "get_shutter_state"):
        return _hdr(O, O.lit("3000"), "03050103", s, FMT2, ts) + d + O.lit("00")
    if kind == "control_device":
        # 79: 00 01 06 00 | 83: on/off | 84: 00 | 85..88: timer seconds LE32
        return (_hdr(O, O.lit("5d00"), "02320102", s, FMT1, ts) + d + O.lit(PAD36) + O.lit("00010600")
                + O.byte(a["onoff"]) + O.lit("00") + O.le32(a["timer_s"]))
    if kind == "set_auto_shutdown":
        return _hdr(O, O.lit("5b00"), "02320102", s, FMT1, ts) + d + O.lit(PAD36) + O.lit("00040400") + O.le32(a["auto_s"])
    if kind == "set_device_name":
        return _hdr(O, O.lit("7400"), "02320202", s, FMT1, ts) + d + O.lit(PAD36) + O.lit("00") + a["name32"]
    if kind == "get_schedules":
        return _hdr(O, O.lit("5700"), "02320102", s, FMT1, ts) + d + O.lit(PAD36) + O.lit("00060000")
    if kind == "delete_schedule":
        return _hdr(O, O.lit("5800"), "02320102", s, FMT1, ts) + d + O.lit(PAD36) + O.lit("00080100") + O.byte(a["slot"])
    if kind == "create_schedule":
        # 79: 00 03 0c 00 ff | 84: 01 | 85: day mask | 86: 01 | 87..90 start | 91..94 end
        return (_hdr(O, O.lit("6300"), "02320102", s, FMT1, ts) + d + O.lit(PAD36) + O.lit("00030c00ff") + O.lit("01")
                + O.byte(a["mask"]) + O.lit("01") + O.le32(a["start_t"]) + O.le32(a["end_t"]))
    if kind == "stop":
        return (O.lit(MAGIC + "5900" + "03050102") + s + O.lit("232301" + "00" * 9) + ts + O.lit(Z10 + TERM) + d
                + O.lit(PAD36) + O.lit("370202000000"))
    if kind == "set_position":
        return (O.lit(MAGIC + "5800" + "03050102") + s + O.lit("290401" + "00" * 9) + ts + O.lit(Z10 + TERM) + d
                + O.lit(PAD36) + O.lit("37010100") + O.byte(a["position"]))
    if kind == "breeze_update":
        # 79: 37 01 00 03 0b 04 00 | 86 state | 87 mode | 88 target | 89 fan<<4 | swing
        return (_hdr(O, O.lit("5e00"), "0305010e", s, FMTB, ts) + d + O.lit(PAD36) + O.lit("370100030b0400")
                + O.byte(a["state"]) + O.byte(a["mode"]) + O.byte(a["target"]) + O.byte(a["fan_swing"]))
    if kind == "breeze_command":
        # 79: 37 01 | 81..82: LE16(4 + len(text)) | 83..86: 00 00 00 00 | 87..: ascii text "Para|HexCode"
        n = O.len(a["ir_text"])
        return (_hdr(O, O.le16(n + 95), "03050102", s, FMTB, ts) + d + O.lit(PAD36) + O.lit("3701") + O.le16(n + 4)
                + O.lit("00000000") + a["ir_text"])
    raise KeyError(kind)


def frame_of(O, kind, a):
    b = body_of(O, kind, a)
    return b + signature(O, b)


def envelope_ok(O, frame):
    """C01: magic, LE16 total length, terminator, signature over all preceding bytes"""
    n = O.len(frame)
    conds = {
        "long_enough": O.ge(n, 44),
        "magic": O.eq(frame[0:2], O.lit(MAGIC)),
        "length_le16": O.eq(frame[2:4], O.le16(n)),
        "length_fits_16_bits": O.lt(n, 65536),
        "terminator": O.eq(frame[38:40], O.lit(TERM)),
        "signature": O.sig_ok(frame),
    }
    return conds


FRAME_LEN = {
    "login1": 82, "login2": 48, "get_state": 48, "get_state2": 48, "control_device": 93, "set_auto_shutdown": 91,
    "set_device_name": 116, "get_schedules": 87, "delete_schedule": 88, "create_schedule": 99, "stop": 89,
    "set_position": 88, "breeze_update": 94,
}
