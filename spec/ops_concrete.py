"""Concrete ops backend for the reference specs (plain bytes / ints, no solver) - used by
replay.py under the repository's interpreter and by the start-up self-checks."""


def crc16(data: bytes, init: int) -> int:
    """CRC-16/CCITT, poly 0x1021, MSB first, bit by bit"""
    crc = init & 0xFFFF
    for b in data:
        crc ^= b << 8
        for _ in range(8):
            crc = ((crc << 1) ^ 0x1021) & 0xFFFF if crc & 0x8000 else (crc << 1) & 0xFFFF
    return crc


class _O:
    def lit(self, hexs):
        return bytes.fromhex(hexs)

    def le16(self, x):
        return bytes([x & 0xFF, (x >> 8) & 0xFF]) if 0 <= x < 65536 else b"\xff\xff-out-of-range"

    def le32(self, x):
        return int(x).to_bytes(4, "little") if 0 <= x < (1 << 32) else b"\xff-out-of-range"

    def byte(self, x):
        return bytes([x]) if 0 <= x < 256 else b"\xff-out-of-range"

    def len(self, b):
        return len(b)

    def crc(self, data, init):
        return crc16(bytes(data), init)

    def eq(self, a, b):
        return a == b

    def ge(self, a, b):
        return a >= b

    def lt(self, a, b):
        return a < b

    def all(self, conds):
        return all(conds)

    def any(self, conds):
        return any(conds)

    def not_(self, c):
        return not c

    def implies(self, a, b):
        return (not a) or b

    def ite(self, c, a, b):
        return a if c else b

    def u(self, d, i):
        return d[i]

    def uint(self, d, i, n, order):
        return int.from_bytes(bytes(d[i:i + n]), order)

    def name_field_ok(self, f):
        """1..32 bytes of valid UTF-8 without trailing NUL, NUL padded"""
        s = bytes(f).rstrip(b"\x00")
        if not s or b"\x00" in s:
            return False
        try:
            s.decode("utf-8")
        except UnicodeDecodeError:
            return False
        return True

    def ascii_field_ok(self, f):
        return all(32 < b < 127 for b in bytes(f))

    def sig_ok(self, frame):
        from .frames import signature

        return len(frame) >= 4 and frame[-4:] == signature(self, frame[:-4])


O = _O()
