"""Per-operation argument semantics (polymorphic over the ops backend `O`).

`a` is the abstract argument record of one call:
  common : session (4 bytes), ts (int), dev_id (3 bytes), key (1 byte)
  control_device    : on (0/1), minutes (int)
  set_auto_shutdown : secs (int, whole seconds of the timedelta)
  set_device_name   : name_bytes (UTF-8 bytes, length B), name_chars (int)
  delete_schedule   : slot (int 0..7)
  create_schedule   : mask (int), start_t/end_t (epoch seconds), plus the relational checks done by the harness
  set_position      : position (int)
  breeze_update     : state, mode, target, fan, swing (ints)
  breeze_command    : ir_text (ascii bytes)
"""

from . import frames as SF

LOGIN_KIND = {1: "login1", 2: "login2"}


def accepted(O, op, a):
    """the documented argument domain of each operation"""
    if op == "control_device":
        # timer must fit 32 bits
        return O.any([O.lt(a["minutes"], 1), O.lt(a["minutes"] * 60, 1 << 32)])
    if op == "set_auto_shutdown":
        v = (a["secs"] // 60) * 60
        return O.all([O.ge(a["secs"], 0), O.ge(v, 3600), O.lt(v, 86341)])
    if op == "set_device_name":
        return O.all([O.ge(a["name_chars"], 2), O.lt(a["name_chars"], 33), O.lt(O.len(a["name_bytes"]), 33)])
    if op == "set_position":
        return O.all([O.ge(a["position"], 0), O.lt(a["position"], 101)])
    if op == "delete_schedule":
        return O.all([O.ge(a["slot"], 0), O.lt(a["slot"], 8)])
    if op == "create_schedule":
        # accepted: exactly H:M without blanks; strings that are H:M only after stripping blanks carry no obligation
        return O.all([a.get("clock_exact", True), O.not_(a.get("days_dup", False))])
    return True


def must_reject(O, op, a):
    """arguments the statement of C02 says must raise (no command frame)"""
    if op == "create_schedule":
        return O.any([O.not_(a.get("clock_ok", True)), a.get("days_dup", False)])
    if op in ("control_device", "set_auto_shutdown", "set_device_name"):
        return O.not_(accepted(O, op, a))
    return False


def command_kind(op):
    return {
        "get_state": "get_state", "get_breeze_state": "get_state2", "get_shutter_state": "get_state2",
    }.get(op, op)


def fields(O, op, a):
    """frame field record for spec.frames.body_of"""
    r = dict(session=a["session"], ts=a["ts"], dev_id=a["dev_id"], key=a["key"])
    if op == "control_device":
        r["onoff"] = a["on"]
        r["timer_s"] = O.ite(O.lt(a["minutes"], 1), 0, a["minutes"] * 60)
    elif op == "set_auto_shutdown":
        r["auto_s"] = (a["secs"] // 60) * 60
    elif op == "set_device_name":
        nb = a["name_bytes"]
        r["name32"] = nb + O.lit("00" * max(0, 32 - len(nb.items if hasattr(nb, "items") else nb)))
    elif op == "delete_schedule":
        r["slot"] = a["slot"]
    elif op == "create_schedule":
        r["mask"], r["start_t"], r["end_t"] = a["mask"], a["start_t"], a["end_t"]
    elif op == "set_position":
        r["position"] = a["position"]
    elif op == "breeze_update":
        r["state"], r["mode"], r["target"] = a["state"], a["mode"], a["target"]
        r["fan_swing"] = a["fan"] * 16 + a["swing"]
    elif op == "breeze_command":
        r["ir_text"] = a["ir_text"]
    return r


def expected_frame(O, kind, op, a):
    return SF.frame_of(O, kind, fields(O, op, a))
