"""Reference layout of the TCP replies (polymorphic abstract decoder, see spec.broadcast).

 login reply : 8..11 session id
 type-1 state: 75 on/off | 77..78 watts LE16 | 89..92 time left s LE32 | 93..96 time on s LE32 | 97..100 auto shutdown s LE32
 shutter     : 76 position | 78..79 direction (0000 stop, 0100 up, 0001 down)
 thermostat  : 76..77 temperature x10 LE16 | 78 on/off | 79 mode 1..5 | 80 target | 81 fan<<4|swing | 84..91 remote id (NUL padded)
"""
from .broadcast import le16, le32, be16, MODES, FANS, DIRECTIONS  # noqa: F401

MIN_LEN = {"state1": 101, "shutter": 80, "thermostat": 92}


def decode(O, d, kind):
    if kind == "state1":
        return {"state": O.u(d, 75), "watts": le16(O, d, 77), "left_s": le32(O, d, 89), "on_s": le32(O, d, 93),
                "auto_s": le32(O, d, 97)}
    if kind == "shutter":
        return {"position": O.u(d, 76), "direction": be16(O, d, 78)}
    if kind == "thermostat":
        return {"temp10": le16(O, d, 76), "state": O.u(d, 78), "mode": O.u(d, 79), "target": O.u(d, 80),
                "fan": O.u(d, 81) // 16, "swing": O.u(d, 81) % 16, "remote": d[84:92]}
    raise KeyError(kind)


def wellformed(O, d, kind, r):
    if kind == "state1":
        return O.all([O.lt(r["state"], 2), O.lt(r["left_s"], 86400), O.lt(r["on_s"], 86400), O.lt(r["auto_s"], 86400)])
    if kind == "shutter":
        return O.any([O.eq(r["direction"], k) for k in DIRECTIONS])
    if kind == "thermostat":
        return O.name_field_ok(r["remote"])
    raise KeyError(kind)
