#!/usr/bin/env python3
"""Regenerates MANIFEST.json from the table below (run after adding a harness)."""
import json
import os

V = os.path.dirname(os.path.abspath(__file__))
TECH = "SHADOW: bounded symbolic execution of the repository's real Python source (AST rewrite + proxies), z3 QF_BV verdict per path"
NOTE = ("Trusted: SHADOW's proxies and the stubs of binascii/struct/asyncio/time (each validated per path by running the unmodified code "
        "on a model of the path under /venv/bin/python), z3 (cvc5 for FP lemmas); bounds and case splits are listed in the evidence.")
CHECKS = {
 "C01": "Every API operation is executed symbolically; on every feasible path z3 refutes 'a written frame violates magic / LE16 total length / terminator / signature' for all device ids, keys, sessions, clock values, replies and arguments in the bounds.",
 "C02": "The command frame of each operation is compared byte-for-byte with an independent reference layout for every argument value in the bounds; arguments the statement rejects must raise before any command frame.",
 "C03": "Ordered pairs (thorough: triples) of operations on one connection and two instances interleaved at every await point are executed with fresh symbolic sessions, clock reads, ids and keys; login-first, own-session, own-timestamp, own-id are refuted per path; a write-set monitor shows that no state outlives an operation.",
 "C04": "sign_packet_with_crc_key is executed on every hex text of 0..24 (quick) / 0..160 (thorough) bytes in both letter cases against a bit-precise CRC-16 reference; free text of 1..6 characters that is not valid hex must raise; byte strings of 31..4097 (thorough: every length up to 4225) bytes with the CRC byte step uninterpreted.",
 "C05": "_parse_device_from_datagram is executed with every byte of the datagram symbolic under the well-formedness predicate; each delivered field is compared with an independent reference decoder, per device type, also after an earlier broadcast of the same model with free identity bytes.",
 "C06": "The datagram is 2 free bytes plus a tail of symbolic length (0..65505): one query per path covers every length and content; the three accepted lengths are re-run with all bytes free for the unknown-model clause; the same foreign datagram arriving 128 (1024) times is ignored every time.",
 "C07": "SwitcherBridge.start and the per-port protocols run under a stub event loop; sequences of datagram classes (valid of each family, foreign, short, long, unknown model, undecodable) with every byte symbolic under its class predicate and one symbolic 'callback raises' bit per invocation; per-port delivery log compared with the reference decode; runs of identical failing datagrams or failing callbacks followed by a valid broadcast.",
 "C08": "get_state / get_shutter_state / get_breeze_state are executed against a reply whose parsed prefix is fully symbolic plus a tail of symbolic length; every field of the returned object is compared with the reference decoder; SwitcherLoginResponse on login replies of 12..48 (96) free bytes.",
 "C09": "Every operation is executed with replies of every length 0..101 (all bytes free) and with a symbolic-length tail at each step; the set of outcomes (returned class / exception class / frames written / success flag) is computed over all feasible paths.",
 "C10": "get_schedules is executed (1) on one record with all bytes free and everything inlined, (2) on k records with the day/duration/next-run functions replaced by argument-recording summaries, (3) on the record create_schedule itself emits, listed back under an arbitrary slot id; zone row and instants symbolic.",
 "C11": "time_to_hexadecimal_timestamp and its decoder are executed with 4 free digits, a free clock instant and a symbolic row of the tz table per zone; the encoded value must be the epoch second of that local time on the local date of the clock read and decode back to the same text; free ASCII text of 0..6 (8) characters that is not HH:MM must raise.",
 "C12": "Weekday encoders/decoder executed on a symbolic single day, a set with 7 free membership bits, lists/tuples of symbolic days and a symbolic mask; bit-exactness, rejection and the round trip are refuted per path; a decode after a decode whose caller emptied the returned set.",
 "C13": "pretty_next_run is executed per (zone, day set) with symbolic start digits, clock instant and zone row; the text is compared with the earliest-occurrence rule on the LOCAL weekday and minute.",
 "C14": "calc_duration executed on symbolic digits: all 1440 x 1440 pairs per digit shape in one run.",
 "C15": "build_command / build_swing_command run on an arbitrary valid remote state (one presence bit per key of the key universe, code texts of symbolic length, symbolic min/max/target) per discrete request; the result must be the first present key of the reference chain with a little-endian length; capabilities are checked on every IR set of n waves over a representative key list.",
 "C16": "control_breeze_device is executed per (subset of given settings, remote kind, update flag, faulty step) with the current-state reply, requested values, sessions and IR texts symbolic and the remote replaced by a recording stub; merged values, frame contents, swing command and fault outcomes are refuted per path.",
 "C17": "Every sequence of up to n bridge actions (start, stop, enter, exit, send, occupy, release, cycle) over a stub event loop; the action of each step is a solver variable; after each step the running flag, the set of listening ports and the callbacks (owed per received broadcast, never while nothing is listening) are checked against the life-cycle automaton; replays also run hurried schedules between a broadcast and stop().",
 "C18": "Every sequence of up to n client actions (connect, refused connect, operation, failing operation, disconnect, async-with variants) over stub streams for both API types; connected flag and open sockets are checked after each step.",
 "C19": "Device type is a symbolic choice over the enum; constructors of the four classes and both port tables are checked against the statement's own table (finite space, covered completely), each class also after an earlier construction in any class.",
}
REF = {k: "DESIGN.md §6 " + k for k in CHECKS}


def main():
    props = [json.loads(l)["id"] for l in open(os.path.join(V, "properties.jsonl"))]
    na_reason = json.load(open(os.path.join(V, "not_applicable.json"))) if os.path.exists(os.path.join(V, "not_applicable.json")) else {}
    checks = []
    for pid in props:
        if pid not in CHECKS:
            continue
        checks.append({
            "property_id": pid, "quick_cmd": "./check %s --tier quick" % pid, "thorough_cmd": "./check %s --tier thorough" % pid,
            "evidence_file": "evidence/%s.json" % pid, "replay_cmd_template": "./check %s --replay {path}" % pid, "engine": "shadow",
            "level_claimed": {"category": "model_checking", "text": CHECKS[pid], "design_ref": REF[pid]},
            "level_note": NOTE, "technique": TECH,
        })
    m = {
        "version": 1,
        "setup_cmd": "python3-vt -c 'import z3, cvc5' && /venv/bin/python -c 'import sys; sys.path.insert(0, \"/repo/src\"); import aioswitcher, time_machine'",
        "hooks": {"guard": "AIOSWITCHER_VERIF", "enable": "no hooks in /repo: SHADOW rewrites the source at load time into package aioswitcher_sym",
                  "baseline_off_cmd": "cd /repo && /venv/bin/python -m pytest -ra -q -p no:cacheprovider --timeout=900 --continue-on-collection-errors",
                  "source_commits": [], "add_only": True},
        "engines": [{"name": "shadow", "path": "shadow/", "serves_properties": sorted(CHECKS),
                     "kind_free_text": "bounded symbolic executor for the repository's real Python source, z3 per query, cvc5 for floating-point lemmas"}],
        "checks": checks,
        "notes": "see DESIGN.md; fixes of genuine defects are listed in known_findings.json",
        "not_applicable": [{"property_id": p, "reason": na_reason.get(p, "check under construction (harness not yet built), not claimed")}
                           for p in props if p not in CHECKS],
    }
    json.dump(m, open(os.path.join(V, "MANIFEST.json"), "w"), indent=1)
    print("claimed:", sorted(CHECKS))


if __name__ == "__main__":
    main()
