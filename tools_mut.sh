#!/bin/bash
# usage: tools_mut.sh <relative file under src/aioswitcher> <sed expr> <property>...   (scratch copy under /tmp, removed afterwards)
set -e
D=$(mktemp -d /tmp/mutXXXX)
cp -r /repo/src $D/src
f=$D/src/aioswitcher/$1
cp $f $f.orig
sed -i "$2" $f
if cmp -s $f $f.orig; then echo "MUTANT DID NOT APPLY"; rm -rf $D; exit 3; fi
rm $f.orig
shift 2
for p in "$@"; do
  SHADOW_REPO_SRC=$D/src /verif/check $p 2>&1 | cut -c1-300 | head -4
  echo "exit=${PIPESTATUS[0]}"
done
rm -rf $D
