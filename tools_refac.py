#!/usr/bin/env python3
"""Run checks against a behaviour-preserving patch (false-alarm trial).
   tools_refac.py <patch.diff> <props...>    scratch worktree under /tmp, removed afterwards"""
import json
import os
import shutil
import subprocess
import sys
import tempfile

VERIF = os.path.dirname(os.path.abspath(__file__))


def main():
    patch, props = sys.argv[1], sys.argv[2:]
    wt = tempfile.mkdtemp(prefix="refwt_", dir="/tmp")
    os.rmdir(wt)
    out = {"patch": patch, "checks": {}}
    try:
        subprocess.run("git -C /repo worktree add -q %s HEAD" % wt, shell=True, check=True)
        ap = subprocess.run("git -C %s apply --whitespace=nowarn %s" % (wt, patch), shell=True, capture_output=True, text=True)
        out["applies"] = ap.returncode == 0
        if ap.returncode == 0:
            t = subprocess.run(["/venv/bin/python", "-m", "pytest", "-q", "-p", "no:cacheprovider"], capture_output=True, text=True,
                               env=dict(os.environ, PYTHONPATH=wt + "/src"), cwd=wt)
            out["tests"] = t.stdout.strip().splitlines()[-1] if t.stdout.strip() else ""
            for p in props:
                c = subprocess.run([os.path.join(VERIF, "check"), p, "--tier", "quick"], capture_output=True, text=True,
                                   env=dict(os.environ, SHADOW_REPO_SRC=wt + "/src"), timeout=5400)
                lines = [l[:400] for l in c.stdout.splitlines() if l.startswith(("VIOLATION", "INCONCLUSIVE", "OK", "  what", "  observed"))]
                out["checks"][p] = {"exit": c.returncode, "lines": lines[:4]}
    finally:
        subprocess.run("git -C /repo worktree remove --force %s" % wt, shell=True)
        shutil.rmtree(wt, ignore_errors=True)
    print(json.dumps(out, indent=1))


if __name__ == "__main__":
    main()
