#!/usr/bin/env python3
"""Verify an independently written breaking change and run the checks against it.

  tools_seed.py <seed dir with patch.diff, demo.py, meta.json> <name> [props...]

Uses a scratch git worktree of /repo under /tmp (removed afterwards); /repo itself is never touched.
Stores the seed under /verif/seeded/<name>/ with result.json."""
import json
import os
import shutil
import subprocess
import sys
import tempfile

VERIF = os.path.dirname(os.path.abspath(__file__))


def sh(cmd, **kw):
    return subprocess.run(cmd, shell=True, capture_output=True, text=True, **kw)


def main():
    src, name = sys.argv[1], sys.argv[2]
    props = sys.argv[3:]
    meta = json.load(open(os.path.join(src, "meta.json")))
    if not props:
        props = [meta["property"]]
    wt = tempfile.mkdtemp(prefix="seedwt_", dir="/tmp")
    os.rmdir(wt)
    res = {"name": name, "property": meta.get("property"), "summary": meta.get("summary"), "needs": meta.get("needs")}
    try:
        r = sh("git -C /repo worktree add -q %s HEAD" % wt)
        if r.returncode:
            raise SystemExit("worktree: " + r.stderr)
        env = dict(os.environ, PYTHONPATH=wt + "/src")
        demo = os.path.join(src, "demo.py")
        r0 = subprocess.run(["/venv/bin/python", demo], capture_output=True, text=True, env=env, cwd=wt, timeout=300)
        res["demo_without_change"] = r0.returncode
        ap = sh("git -C %s apply --whitespace=nowarn %s" % (wt, os.path.join(src, "patch.diff")))
        if ap.returncode:
            ap = sh("git -C %s apply --ignore-whitespace --whitespace=nowarn %s" % (wt, os.path.join(src, "patch.diff")))
        res["applies"] = ap.returncode == 0
        if not res["applies"]:
            res["apply_error"] = ap.stderr[-400:]
        else:
            t = subprocess.run(["/venv/bin/python", "-m", "pytest", "-q", "-p", "no:cacheprovider", "--timeout=900"], capture_output=True,
                               text=True, env=env, cwd=wt, timeout=900)
            res["tests"] = t.stdout.strip().splitlines()[-1] if t.stdout.strip() else t.stderr[-200:]
            r1 = subprocess.run(["/venv/bin/python", demo], capture_output=True, text=True, env=env, cwd=wt, timeout=300)
            res["demo_with_change"] = r1.returncode
            res["demo_output"] = (r1.stdout + r1.stderr)[-400:]
            res["checks"] = {}
            for p in props:
                c = subprocess.run([os.path.join(VERIF, "check"), p, "--tier", "quick"], capture_output=True, text=True,
                                   env=dict(os.environ, SHADOW_REPO_SRC=wt + "/src"), timeout=3600)
                lines = [l for l in c.stdout.splitlines() if l.startswith(("VIOLATION", "INCONCLUSIVE", "OK", "  what", "KNOWN"))]
                res["checks"][p] = {"exit": c.returncode, "lines": [l[:300] for l in lines[:4]]}
    finally:
        sh("git -C /repo worktree remove --force %s" % wt)
        shutil.rmtree(wt, ignore_errors=True)
    valid = res.get("applies") and res.get("demo_without_change") == 0 and res.get("demo_with_change") not in (0, None) \
        and "173 passed" in str(res.get("tests"))
    res["valid_seed"] = bool(valid)
    res["caught_by"] = [p for p, v in res.get("checks", {}).items() if v["exit"] == 1]
    out = os.path.join(VERIF, "seeded", name)
    if valid:
        os.makedirs(out, exist_ok=True)
        for f in ("patch.diff", "demo.py"):
            shutil.copy(os.path.join(src, f), os.path.join(out, f))
        meta2 = dict(meta)
        meta2["what_was_run"] = ["git apply patch.diff in a scratch worktree of /repo", "pytest (expect 173 passed): %s" % res.get("tests"),
                                 "demo.py with / without the change: exit %s / %s" % (res.get("demo_with_change"), res.get("demo_without_change")),
                                 "SHADOW_REPO_SRC=<worktree>/src ./check <property> --tier quick"]
        meta2["breaks_property"] = meta.get("property")
        json.dump(meta2, open(os.path.join(out, "meta.json"), "w"), indent=1)
        json.dump(res, open(os.path.join(out, "result.json"), "w"), indent=1)
    print(json.dumps(res, indent=1))


if __name__ == "__main__":
    main()
