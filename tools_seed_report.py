#!/usr/bin/env python3
"""Writes seeded/RESULTS.md from the result.json / meta.json of every seeded change."""
import glob
import json
import os

V = os.path.dirname(os.path.abspath(__file__))
NOTES = {
    "C08a": "not reported, by design: `round(watts / 22) / 10` differs from `round(watts / 220, 1)` only at exact ties "
            "(watts = 22k + 11), where the statement 'watts/220 to one decimal' does not fix the neighbour; the oracle accepts either "
            "(DESIGN 3.4). The check returns OK on it - listed here as a change the checks deliberately do not flag.",
}
rows = []
for d in sorted(glob.glob(os.path.join(V, "seeded", "C*"))):
    r = json.load(open(os.path.join(d, "result.json")))
    m = json.load(open(os.path.join(d, "meta.json")))
    name = os.path.basename(d)
    chk = "; ".join("%s: exit %d" % (k, v["exit"]) for k, v in r["checks"].items())
    first = ""
    for k, v in r["checks"].items():
        for l in v["lines"]:
            if l.strip().startswith("what:"):
                first = l.strip()[6:]
                break
    outcome = "caught by " + ", ".join(r["caught_by"]) if r["caught_by"] else ("NOT caught (%s)" % chk)
    rows.append("| %s | %s | %s | %s | %s |" % (name, m.get("summary", "").replace("|", "/")[:260], str(m.get("needs", "")).replace("|", "/")[:260],
                                                outcome, (first or NOTES.get(name, "")).replace("|", "/")[:200]))
with open(os.path.join(V, "seeded", "RESULTS.md"), "w") as fh:
    fh.write("# Independently seeded changes and what the checks said\n\n"
             "Each change was written by a sub-agent that saw only the property text and a scratch worktree of the repository. It is kept only "
             "after re-verification here: the patch applies to the current tree, the existing suite still gives 173 passed with it, and "
             "`demo.py` fails with the change and passes without it.  Checks were run as `SHADOW_REPO_SRC=<scratch worktree>/src ./check <id> "
             "--tier quick`; /repo itself was never modified.\n\n"
             "| seed | change | needs | outcome | first violation reported / note |\n|---|---|---|---|---|\n")
    fh.write("\n".join(rows) + "\n\n")
    for k, v in NOTES.items():
        fh.write("* **%s** - %s\n" % (k, v))
    fh.write("\nMachinery added because a seeded change first came back INCONCLUSIVE or was missed (DESIGN 12.2): body exceptions of several "
             "classes in C18; `separated` remotes in C15 builds; control_breeze_device login faults in C09; tm_isdst-aware mktime, calendar "
             "fields and date-only strptime (C10a, C11a); int() of digit characters; strip/lstrip/rstrip/find with forks (C04a, C04b, C02b, C08b, C01b); "
             "lru_cache stub and per-path module state reset (C07a); symbolic-key dict stores (C03b); fixed-length login replies and IR texts of "
             "concrete boundary lengths (C01a, C01b); round() of a float quotient and the tie-tolerant amps oracle (C08a).\n")
print("written", len(rows))
